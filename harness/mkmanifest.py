#!/venv/bin/python
"""Regenerates /verif/MANIFEST.json from the table below (so it is always schema-valid)."""
import json
import os
import sys

HERE = os.path.dirname(os.path.abspath(__file__))
VERIF = os.path.dirname(HERE)

TB = ("Trusted: Lean 4.33 kernel; axioms propext/Classical.choice/Quot.sound only (audited per run with #print axioms; "
      "no sorry/admit/native_decide/bv_decide/own axioms — grepped per run); the hand-written model is tied to /repo "
      "only by the differential correspondence run of this check (harness + Lean driver parser/printer trusted); ")

# pid -> (full|partial, text, note, technique)
CHECKS = {
    "C01": ("full",
            "Lean theorems (C01.lt_iff_lex, le_iff_lt_or_eq, gt/ge_iff_swap, trichotomy/irrefl/asymm/trans, weighted_order_neg/pos, lt_weighted_iff (the order on the "
            "RAW values: first differing objective decides, a negative weight makes the smaller value better), gt_single_neg, values_roundtrip, dominates_iff(+pointwise), "
            "dominates_imp_gt, compare_order_invariant (every operator and dominates see only the ORDER of the weighted values: invariant under any strictly increasing "
            "re-labelling), valid_history, cvalid_history and cdel_clears for constrained fitnesses, constrained_table/both/neither) hold for every linearly ordered "
            "field, every tuple length and every index list. Per-class state is explicit (Core/FitClass.lean: a fitness class = its own `weights` entry + its parent, "
            "Python's attribute lookup along the MRO, a world of classes and objects with caller histories): resolve_own / resolve_inherited / resolve_stable (a class "
            "resolves to its own declaration whatever its ancestors declare, else to its parent's; later classes change nothing), class_isolation (the result of every "
            "operation on fitness objects depends only on each object's own weighted values and the weights its OWN class resolves to, after arbitrary histories on "
            "other classes and instances - no per-class cache can go stale), readback_hierarchy / readback_resolved (values read back unchanged for +-1 weights in any "
            "hierarchy), init_valid_iff / init_falsy_array (the constructor tests len(values) > 0 for every container kind: a falsy non-empty numpy array is assigned), "
            "str_eq_values, eq_imp_hash_eq (equal fitnesses hash equal for every tuple hash). Model Core/Fitness.lean + Core/FitClass.lean is diffed against deap.base on "
            "families of related fitness classes created afresh per case (every order of first use over chains of 2-3 classes derived by class / creator.create, weights "
            "overridden or inherited, and random histories new class / new object / assign / read-back / str / compare / dominates / clone / delete), an exhaustive small domain, random dyadic inputs, "
            "near-ties a few ulps apart, integers beyond 2**53 and exact rationals (integer weights), finite weights x finite values whose products saturate at +-inf "
            "(ties at infinity; the model sees a strictly increasing image), values handed over in tuples/lists/deques/float64, float32 and int64 arrays through the "
            "constructor, the keyword and the property, constrained histories (assign / set violation record incl. numeric records / delete in every order), and the statement itself "
            "is evaluated as an oracle on the real objects. Clone equality (clone_eq, cclone_eq) and the no-aliasing of assigned containers hold by construction in the "
            "model (a value has no identity) and rest on the oracle: clones compared on the real objects, assigned lists mutated afterwards. Clones for EVERY weight "
            "vector: clone_bitwise / cclone_bitwise (the clone carries the original's weighted values themselves, for any scalar type, no arithmetic), "
            "clone_no_recompute (a clone rebuilt through the public values is the original iff (x/w)*w = x for every weighted value), reclone_field (so it is in every "
            "ordered field), reclone_witness / recloneInv_witness / r64_div_mul_ne (kernel-checked: not so in binary64 - Core/Fitness.lean R64 = exact operation + "
            "round-to-nearest-even to 53 bits; weight 49.0 value 0.020408163265306124; weights (-0.7, 1.3) values (0.1, 0.7) with inverse weights); the rclone stream "
            "clones real fitnesses through copy.copy / copy.deepcopy / pickle (all protocols) / toolbox.clone / cloned and pickled individuals under arbitrary finite "
            "non-zero float weights and arbitrary doubles (ordinary, power-of-two boundary, subnormal, saturating), demands `compares equal` and diffs the weighted values "
            "bit for bit against the R64 model (itself cross-checked against the machine's Float in the driver). numpy fixed-width integer values (uint8..uint64, "
            "int8..int64, each type's minimum and maximum, scalars and arrays) under float weights of both signs are judged on the exact value*weight. "
            "TRANSLATOR TIE (round 8): on every run harness/py2lean_c01.py re-reads deap/base.py and regenerates 31 Lean definitions Gen01.<Class>_<method> "
            "(Fitness: getValues, setValues, delValues, valid, dominates, __hash__, the six operators, __init__, __deepcopy__; _violates_constraint; "
            "ConstrainedFitness: the six operators, __hash__, dominates with its objective slice, the values deleter, __init__, __deepcopy__); 30 committed theorems "
            "(lean/DeapModel/GenEq/C01.lean.tmpl) are kernel-checked per run: each generated definition EQUALS the hand-written model (Fitness.getValues / setValues / "
            "dominates on the index lists slice.indices produces / le lt eq gt ge ne / hashWith / init / deepcopy / violates / cle clt ceq cgt cge cne / cdominatesObj / "
            "cinit / cdeepcopy) at every scalar type; a source change that alters a translated method breaks an obligation before any input is sampled. "
            "New model theorems C01.cdominatesObj_all / cdominatesObj_cases (the sliced constrained dominance of repair F38).",
            TB + "translator tie: the rendering rules in the docstring of harness/py2lean_c01.py and the prelude Core/GenPreludeC01.lean (slice.indices, forRet, isum) are trusted; "
            "methods are rendered as functions of the declared fields (wvalues, constraint_violation, the class's weights: a table that is an assumption of the tie) - "
            "no metaclass, property object, descriptor protocol, instance __dict__ or object identity is rendered; __str__ / __repr__ are outside the sub-language; "
            "a slice with step 0 and exceptions of float arithmetic are not rendered. IEEE products of the test inputs are exact (weights +-1 for the near-tie stream, small dyadics otherwise; model uses Rat); CPython tuple comparison/slicing "
            "modelled in Core/Py.lean; the read-back clause is demanded for weights +-1 only, as the statement says, and for values that are doubles; binary64 "
            "round-to-nearest-even = Fitness.rn64 in the normal range (replayed against Float and CPython on every rclone line); numpy integer values are paired with float "
            "weights (64-bit integers beyond 2**53 are read as the doubles they convert to).",
            "Lean 4 proof over a hand-written model + differential correspondence + oracle "
            "+ translator tie (definitions regenerated from source, kernel-checked equal to the model)"),
    "C02": ("full",
            "Lean theorems (C02.varAnd_/varOr_ count, parents_unchanged, inputs_unchanged, fresh, not_input, distinct, touched_invalid, untouched_is_clone/"
            "reproduced_is_clone, valid_is_parent_copy, varAnd_next_le, isSome, decodeAnd_lengths, decodeOr_length) hold for every population (repeated individuals "
            "included), every decision tape and every mate/mutate pair meeting the generalised OpContract: an operator returns objects that are its arguments or "
            "objects it allocated itself, mate returns two different objects, it writes only those, and may do anything to their genome and fitness. For the "
            "library's own operators the contract is no longer assumed: C02.lifted_inplace_meets_contract proves it once for EVERY in-place genome operator lifted to "
            "a heap transformer, C02.staticLimit_meets_contract for gp.staticLimit around any operator meeting it, C02.library_ops_meet_contract instantiates both for "
            "every operator model of C09 (Core/CrossMut: cxOnePoint, cxTwoPoint(s), cxUniform, cxPartialyMatched, cxUniformPartialyMatched, cxOrdered, cxMessyOnePoint, "
            "cxESTwoPoint(s), mutShuffleIndexes, mutFlipBit, mutUniformInt, mutInversion), C10 (Core/RealOps: cxBlend, cxSimulatedBinary(+Bounded), cxESBlend, mutGaussian, "
            "mutPolynomialBounded, mutESLogNormal) and C11 (Core/GpTree: cxOnePoint, cxOnePointLeafBiased, mutUniform, mutNodeReplacement, mutEphemeral, mutInsert, mutShrink), "
            "plain or decorated, under every coding of floats / trees as heap genomes and every operator tape; C02.varAnd_library_ops / varOr_library_ops state all five "
            "clauses for these pairs with NO operator hypothesis (+ _total: the call returns; _inplace_offspring: with undecorated library operators the offspring are the "
            "clones themselves). touched_invalid speaks about the object that ends up in the offspring list. Core/Variation.lean is replayed against "
            "deap.algorithms.varAnd/varOr on recorded runs over list/array/numpy/GP-tree/ES/permutation individuals x plain, multi-objective and Constrained fitness "
            "with IEEE replay of the probability comparisons, twice: with scripted operators (every wrapper: copy-and-return, every combination of returned-object "
            "identity, swap, fitness-assigning, staticLimit) and END TO END through the composed model (Core/VariationOps.lean: the model operators compute the "
            "offspring genomes from the replayed operator tape; all six representations, staticLimit on len / sum / height); the statement is evaluated as an oracle "
            "on the real objects (snapshots, identity, shared mutable state, empty invalid fitness). tools.History (Core/History.lean: update, decorator, getGenealogy on "
            "the same heap, history_index as an instance attribute that clones carry forward): C02.history_decorator_meets_contract (history.decorator around ANY "
            "pair meeting OpContract meets it again), varAnd_history_ops / varOr_history_ops (+_total): all five clauses with History-decorated library operators, "
            "history_entries_fresh (genealogy_history holds freshly allocated copies, nothing else is written), history_index_monotone (indices index+1, index+2, ... "
            "in call order), genealogy_tree_parents, history_parents_below (no cycle while every index comes from this history), getGenealogy_submap / _terminates / "
            "_closed (closed under parents without a depth bound; with a bound only approximately, as the docstring says) and getGenealogy_cyclic_never_returns (an "
            "individual carrying an index of ANOTHER history can become its own ancestor: RecursionError); replayed (protocol op `hist`) on multi-generation varAnd/varOr "
            "histories with one History object: offspring, history_index, genealogy_tree/_history content and identity, getGenealogy answers. Two more clause-carrying "
            "streams: fitness classes with INTEGER weights and exact integer objectives beyond 2**53, and call histories on ONE class whose gene structure changes "
            "(atomic -> nested lists -> atomic) with one toolbox reused. TRANSLATOR TIE: on every run deap/algorithms.py varAnd and varOr are regenerated from the "
            "current source as Lean definitions (harness/py2lean_c02.py over Core/GenPreludeC02.lean) and kernel-checked equal to the hand-written model composed with "
            "its draw decoders (GenEq/C02.lean.tmpl: Gen.varAnd_eq_canon, Gen.varAnd_eq_model - on every tape that starts with the len/2+len random() results the call "
            "consumes; Gen.varOr_eq_canon, Gen.varOr_eq_model - on EVERY tape, run to exhaustion), so the index loops of the source are PROVED to be the structural "
            "recursions the theorems are about (Lemmas/C02Gen.lean forPairs_mateBody, forEach_mutBody, repeatM_orBody); the packaged loops of C03 are outside the "
            "translated sub-language (listed as refused).",
            TB + "the rendering rules of harness/py2lean_c02.py (docstring) and the prelude Core/GenPreludeC02.lean; that the operator MODELS compute what deap.tools / deap.gp compute is the correspondence of C09/C10/C11 and of the composed stream here (OpContract itself "
            "holds for every lifted function, so it does not depend on it); user-registered operators outside the library are covered relative to OpContract (checked "
            "on every recorded call); a = b (the same object passed twice to mate) is outside the lifting's faithful domain and never arises (two different clones are "
            "passed); clone=deepcopy (C16); Lean Float < and + equal CPython's; GP nodes are immutable symbols; 'shares no mutable state' is oid freshness in the model "
            "and the aliasing walk on the real objects; varOr needs >= 2 individuals when cxpb > 0.",
            "Lean 4 proof over a hand-written heap model composed with the operator models + trace-replay and end-to-end tape-replay correspondence + oracle "
            "+ translator tie (definitions regenerated from source, kernel-checked equal to the model)"),
    "C09": ("full",
            "Lean theorems C09.{onepoint,twopoint,uniform,messy}_multiset, *_locus, *_lengths, uniform(R)_exact, es_pairs(+_multiset,_locus,_lengths), "
            "pmx_perm, upmx_perm, ox_perm (aliased in-place model), shuffle_perm/shuffle_total/shuffle_raises, inversion_perm(+_exact), flip_exact/complement/length, "
            "uniform_int_bounds(+_scalar,_seq,_total)/uniform_int_rejects/uniform_int_exact hold for every gene list, every length and every draw inside the ranges of "
            "randint/sample/randrange/random. The representation is explicit: Core/Buffer.lean models sequence objects as buffers in a heap with the slice disciplines "
            "copy (list, array.array: a slice is a fresh object) and view (numpy.ndarray: a slice is a window onto the same storage, slice assignment reads its right-hand "
            "side at assignment time, equal lengths or one-item broadcast, else ValueError), Core/CrossMutBuf.lean re-expresses all twelve operators over that interface "
            "statement by statement with Python's tuple-assignment order. Proved for every heap and every pair of different objects: under copy each operator completes "
            "under its guard - no subscript fails, also for PMX/UPMX/OX - writes only its arguments and leaves the list model's children in them (copy_refines_list(+_onepoint,"
            "_twopoint,_messy,_es,_inversion), refines_list_uniform/pmx/upmx/ox/shuffle/flip/uniform_int), so the clause theorems above are theorems about list- and "
            "array.array-backed individuals; the element-wise operators do not depend on the discipline (elementwise_repr_independent) and every clause holds for "
            "numpy-backed individuals too (uniform/pmx/upmx/ox/shuffle/flip/uniform_int/inversion_any_backing); mutInversion is the same under both disciplines "
            "(inversion_repr_independent); under view the slice-swapping crossovers return parent 2 unchanged and lose parent 1's segment for ALL parents and draws "
            "(twopoint_view_exact, onepoint_view_exact, es_view_exact), conserve the gene multiset iff the two segments hold the same genes (twopoint_view_conserves_iff), "
            "with concrete witnesses inside every guard incl. the ValueError cases (slice_swap_view_loses_genes) - the restriction documented in "
            "doc/tutorials/advanced/numpy.rst is exactly the boundary. Both models are diffed against deap.tools: the list model under forced tapes (all permutation pairs "
            "n<=4 x all draws, all cut points, all decision vectors) and recorded value tapes agnostic of the drawing API (n<=12 plus permutations of length 257..400, "
            "list/array b,i,q,d/numpy, bounds as int/list/tuple/range/array up to +-2^40 and next to 2^53/2^62, gene types checked for bit flip); the buffer model by calling "
            "EVERY operator with the same draws on list, array.array and numpy.ndarray individuals (ES: numpy and list strategies) and comparing with the model under both "
            "disciplines, including the gene-losing numpy results, the raised ValueError and the contents the exception leaves behind; statement evaluated as oracle on the "
            "real objects. HISTORIES: OpHistory (Core/CrossMutBuf.lean) is a process of events - operator calls on objects of three heaps (permutation, integer, strategy "
            "objects), calls that raise midway (the heap stays as the exception left it), refused calls, the caller overwriting individuals or low/up bound lists in place - "
            "whose state is the heaps and nothing else; mutUniformInt takes its bounds by reference and reads them when it is called. op_result_history_independent: after "
            "ANY history from any start state, a call whose arguments meet the hypotheses now completes, returns its arguments and leaves in them the list model's result "
            "on their current contents, every other object untouched (ox_result_depends_on_current_contents_only, uniform_int_reads_bounds_at_call_time are the two "
            "instances that name what memoised bounds / markers left dirty by an aborted call would break). The history stream (second in the run) runs 2-6 calls per "
            "process image on reused objects - bound lists and individuals overwritten in place between calls, tours numbered 1..n / labels >= size / too-short bounds / "
            "low > up / too-short individuals / numpy slices of unequal length raising in between - judges EVERY valid call by the statement against its own arguments at "
            "call time and replays the whole history, aborted calls' partial states included, on that machine. "
            "TRANSLATOR TIE: on every run harness/py2lean_c09.py re-reads deap/tools/crossover.py and mutation.py of the tree under test and renders cxOnePoint, cxTwoPoint(s), "
            "cxMessyOnePoint, cxUniform, cxESTwoPoint(s), cxPartialyMatched, cxUniformPartialyMatched, mutShuffleIndexes, mutFlipBit, mutInversion as Lean definitions Gen.<f> "
            "(object cells with aliasing, CPython's tuple-assignment order, item / slice assignment in state-passing style, draws read from an explicit two-channel tape, "
            "for loops as folds in Option); the committed theorems of lean/DeapModel/GenEq/C09.lean.tmpl (12, audited with the others) prove for ten of them that on EVERY tape "
            "the regenerated definition equals CrossMut.<f> under its ...Ok guard, hands back the rest of the tape and is none outside the guard (so the randint/randrange "
            "argument ranges are tied too); a change of these functions' source breaks an obligation whatever inputs it needs, a behaviour-preserving rewrite re-proves "
            "(helpers extracted, temporaries, comparison instead of min/max). PMX/UPMX are regenerated without a theorem; cxOrdered and mutUniformInt are outside the "
            "sub-language (refused, listed per run in evidence/C09.translated.json) and stay tied by correspondence only.",
            TB + "the translator harness/py2lean_c09.py (docstring = sub-language and rendering rules) with Core/GenPrelude.lean + Core/GenPreludeC09.lean and the signature table "
            "of harness/props/c09_translate.py (lists of opaque genes, distinct objects, list copy semantics - numpy views stay with the Buffer model); "
            "CPython list/array item+slice assignment and tuple-assignment order as transcribed; numpy slice = view, item = scalar (one-dimensional individuals), "
            "assignment-time read of the right-hand side (overlap copied first, numpy >= 1.13), broadcast rule as transcribed in Core/Buffer.lean and exercised on real "
            "arrays by the representation stream; random functions return values in their documented ranges (uniform_int_bounds is about position<->bound alignment); "
            "parents are distinct objects; the oracle's domain is list/array.array for every operator and numpy for the element-wise operators only (as the statement's "
            "quantifier says): slice-swapping crossovers and mutInversion on numpy are compared with the view model, never judged; in-place/identity (in_place1/2/_es fix "
            "the model's convention; the buffer operators return the ids they were given and the refinement theorems carry a frame condition) is established on the real "
            "objects by `is` on every case.",
            "Lean 4 proof over a hand-written model (list model + heap/buffer model with slice disciplines, refinement proved) + tape-replay differential correspondence + oracle "
            "+ translator tie (definitions regenerated from source, kernel-checked equal to the model)"),
    "C19": ("full",
            "Lean theorems C19.feasible_passthrough_delta/closest, delta_no_call, delta_formula(+_no_distance), delta_length, closest_calls, "
            "closest_formula, closest_length, closest_size_mismatch, never_better_delta/closest, monotone_in_distance_delta/closest hold over every "
            "linearly ordered field, every weight vector (sign 0 treated as the code does), scalar or per-objective constants and absent/scalar/vector "
            "distances, including the call log of the wrapped function; model Core/Penalty.lean is diffed against DeltaPenalty/ClosestValidPenalty on all "
            "sign patterns for 1-4 objectives with dyadic values, vectors given as tuple/list/numpy.ndarray/array.array/range and scalars as int/float/numpy.float64, "
            "feasibility values of several truthy types, args/kwargs passthrough, 2-4 call sequences through ONE decorator instance with changing weight vectors, one "
            "decorator object decorating several functions, individuals and closest points carrying stale stored fitnesses; the statement is an oracle on the real "
            "decorators. Round 7: C19.penalty_class_isolation / _own_weights / _inherits / _later_classes / penalty_history_independent (the outcome depends on the "
            "world of fitness classes - C01's FitClass model - only through the weights the individual's OWN class resolves to, and a history is the list of its "
            "calls) and C19.feasible_passthrough_kwargs (the whole keyword map arrives, every name); correspondence streams: histories over families of related "
            "fitness classes created per case (overriding / inheriting children and grandchildren, siblings, type() and creator.create, every order of first use, "
            "1-2 decorator objects of one or both decorator classes decorating the same 1-2 functions; the model resolves the weights from the class table), a "
            "keyword-name pool of 75 names (every identifier of constraint.py's wrappers, typical option names such as verbose/debug) with evaluation functions "
            "whose VALUE depends on their options, and numpy fixed-width integer distances/constants (int8..uint64, scalars and arrays) x Python-int / float / numpy "
            "constants at magnitudes on both sides of the width's range for both decorators. Known finding F36 (DeltaPenalty computes in the fixed-width integer "
            "type of a numpy distance/constant and wraps or raises OverflowError) is classified for exactly that input class and reported as KNOWN-FINDING. "
            "TRANSLATOR TIE (round 8): on every run the wrapper bodies of DeltaPenalty.__call__ and ClosestValidPenalty.__call__ are re-read from "
            "deap/tools/constraint.py and regenerated as Gen19.DeltaPenalty_wrapper / Gen19.ClosestValidPenalty_wrapper (harness/props/c19_translate.py over "
            "harness/py2lean_c01.py); 2 committed theorems (lean/DeapModel/GenEq/C19.lean.tmpl) are kernel-checked per run: the generated definition EQUALS "
            "Penalty.deltaPenalty / Penalty.closestValidPenalty - returned fitness and call log - at every scalar type, for every X, A and every function parameter.",
            TB + "translator tie: the rendering rules in the docstrings of harness/py2lean_c01.py and harness/props/c19_translate.py are trusted (closure = one definition with "
            "self.fbty_fct / delta / dist_fct / fbl_fct / alpha / func as typed parameters, one scalar type for numbers, call log of func, number-or-vector and repeat(c) as "
            "Penalty.SV, the idiom `if not _is_vector(v): v = repeat(v)`, zip cut to the finite operands); functools.wraps, closure cells, __init__ and iterator state "
            "are not rendered. IEEE arithmetic on the dyadic test inputs is exact (model uses Rat); decorators_stateless / wrappers_independent / penalty_history_independent are "
            "congruence facts that hold of any Lean function - history independence of the implementation (also across fitness classes and decorator objects) is "
            "established by the sequence and family streams. Inputs of known finding F36 are judged by the oracle alone (no model line).",
            "Lean 4 proof over a hand-written model + differential correspondence + oracle "
            "+ translator tie (definitions regenerated from source, kernel-checked equal to the model)"),
    "C10": ("partial",
            "Lean theorems over the reals (C10.blend_sum/esblend_sum/sbx_sum, blend_range/esblend_range, sbx_welldefined, "
            "sbxb_welldefined + sbxb_bounds + sbxb_unclamped, poly_welldefined + poly_bounds + poly_unclamped, gauss_len, gauss_indpb0, "
            "lognormal_len/_indpb0/_pos/_welldefined, *_in_place, *_runs) hold for every length, gene, bound (scalar or per gene), eta, alpha, "
            "indpb and every tape of draws: children sums and blend range, every / and ** of bounded SBX and polynomial mutation applied "
            "inside its real domain with the result inside the bounds even before the clamp, identity for indpb = 0, positive strategies "
            "stay positive, same objects and lengths returned. A second, rounded semantics (Core/RoundedOps.lean: finite | +inf | -inf | nan "
            "under ANY monotone, exact-on-representables rounding with IEEE special values, nan also = Python exception) runs the same model "
            "definitions: C10.clamp_in_bounds / clamp_nan / clamp_in_bounds_iff (the final clamp puts every non-nan value inside the bounds and "
            "keeps nan: the in-bounds clause for floats IS NaN-freedom), C10.sbxb_rounded(_locus) and poly_rounded(_locus) (finite parents inside "
            "finite bounds with finite width and finite parent sum, width >= 1e-14 for the mutation, eta >= 0, draws in [0,1): no inf-inf, 0*inf, "
            "0/0, inf/inf, zero divisor, negative base or overflowing power; genes finite and in bounds), C10.poly_width_overflow_nan / "
            "sbxb_width_overflow_nan (the magnitude hypothesis is necessary: an overflowing width gives nan, as the real code does for "
            "low=-1e308, up=1e308), C10.lawful_exists. In the standard model of floating-point error C10.blend_sum_rounded / esblend_sum_rounded "
            "(|c1+c2-(x1+x2)| <= 6u(|x1|+|x2|)(1+|gamma|)+5nu) and sbx_sum_rounded (5u(|x1|+|x2|)(1+|beta|)+5nu) turn the oracle's sum tolerance "
            "into a proved bound, which the oracle evaluates exactly over the rationals with u=2^-53, nu=2^-1075; likewise the blend RANGE clause: "
            "C10.blend_range_rounded / esblend_range_rounded (children inside [min - alpha*w - E, max + alpha*w + E], E = (7/2 u (2+alpha+Eg) + Eg)"
            "(|x1|+|x2|) + 9/4 nu, Eg = 6u(1+2alpha) + 4nu = error of the computed gamma; C10.blendRangeErr_binary64: E <= 45u(|x1|+|x2|) + "
            "5nu(1+|x1|+|x2|) for alpha <= 2), which replaces the oracle's former 1e-9 tolerance (evaluated exactly over the rationals). "
            "Unbounded SBX in the rounded semantics: C10.sbx_rounded(_locus) (eta >= 0, draw in [0, top], magnitudes leaving room for the spread "
            "factor - binary64: genes up to 4.9e291 - : no zero divisor, negative base, overflow or inf-inf; both children finite). "
            "ES mutations in the rounded semantics: C10.gauss_len_rounded, gauss_indpb0_rounded, lognormal_len_rounded, lognormal_indpb0_rounded "
            "(the decision random() < 0.0 as a float comparison), and the EXACT BOUNDARY of 'positive strategies stay positive': "
            "C10.lognormal_pos_rounded(_locus) under the decidable hypothesis lognMag (strategy s > 0, exponent argument a <= 709, "
            "k <= 1074 with -0.693k <= a, s*2^-k >= 2^-1074; any arithmetic with monotone exact-on-representables rounding whose exp is finite up to "
            "expmax and satisfies exp(x) >= 2^-k for x >= -0.693k) the new strategy is >= the smallest positive number; beyond it the clause is false "
            "for floats: C10.lognormal_underflow_zero (product rounds to 0: the positive strategy becomes 0.0) and C10.lognormal_overflow_raises "
            "(OverflowError), both reproduced on the real code by the stream xlogn, which probes both sides of the boundary (Lean-evaluated "
            "hypothesis vs independent evaluation; hypothesis holds => real strategy > 0; outside nothing is demanded: recorded reading); "
            "C10.lawful_exp_exists. A HISTORY stream runs 3-6 consecutive calls of the bounded operators sharing ONE low / up list (or array) object "
            "edited in place between the calls (also fresh objects, tuples, scalars, other sizes), each call judged against and replayed with the "
            "bounds' contents at that call. Core/RealOps.lean keeps the "
            "Python operation order; its Float instance replays the real operators draw by draw (tolerance 1e-9, NaN for NaN) on a boundary-draw "
            "grid, random inputs and an extreme-magnitude stream (widths 1e-300..1.8e308, eta up to 1e300, draws next to 0 and 1) on which the "
            "Lean-evaluated theorem hypotheses are compared with an independent evaluation and the theorems' conclusion is evaluated on the real "
            "result; the statement is evaluated on the real results (isfinite, not complex, bounds exact, sums within the proved bound, "
            "strategies > 0). TRANSLATOR TIE: on every run harness/py2lean_c10.py re-reads cxBlend, cxSimulatedBinary, "
            "cxSimulatedBinaryBounded, cxESBlend, mutGaussian, mutPolynomialBounded (and mutESLogNormal, translated without a theorem) from the "
            "current source, renders them in state-passing style over the model's tape interface (in-place stores ind[i] = v as indexed list "
            "updates, IndexError as an outcome), and the Lean kernel re-checks Gen.<f>_loop1_step / Gen.<f>_eq_model (GenEq/C10.lean.tmpl, "
            "12 theorems): the regenerated function equals RealOps.<f> for every input and tape AT EVERY SCALAR (reals, Float and the rounded "
            "semantics alike), so the real and the rounded C10 theorems are about the code as it is now; the index-loop / structural-loop "
            "bridge is proved once per loop shape (Lemmas/C10Gen.lean). Any change of a formula, literal, guard, draw order or store of these six "
            "functions breaks an obligation whatever its numerical size.",
            TB + "translator tie: the rendering rules of harness/py2lean_c10.py (+ the expression layer of harness/py2lean.py) and Core/GenPreludeC10.lean "
            "are trusted, parameters typed by a signature table, distinct arguments = distinct lists with copy semantics, float exceptions not rendered; "
            "mutESLogNormal has no equality theorem yet (correspondence only); a behaviour-preserving rewrite that leaves the sub-language or changes "
            "the operation order is reported as an unproved obligation (no-failing-input-found), not silently accepted. "
            "partial because: that CPython's binary64 arithmetic and libm pow satisfy the laws of the rounded semantics (monotone rounding, "
            "monotone sign-correct pow, exp finite up to 709 and >= 2^-k from -0.693k on) and the standard error model is trusted and probed, not "
            "proved; the ES clause 'positive strategies stay positive' holds for floats only inside the proved boundary (outside: exp underflow "
            "zeroes a strategy for c >= ~61 or subnormal strategies, OverflowError of exp - recorded reading); the rounded theorems for unbounded "
            "SBX take the representable caps C, P as parameters (no binary64 instance of Arith is constructed); "
            "libm agreement CPython/Lean Float; random.gauss(mu,sigma)=mu+z*sigma; the two individuals of a crossover are distinct objects; "
            "magnitudes: width xu-xl and parent sum x1+x2 finite doubles (else nan genes, recorded reading).",
            "Lean 4 proof over a RealLike-polymorphic model + forced-tape differential correspondence (Float) + oracle "
            "+ translator tie (definitions regenerated from source, kernel-checked equal to the model)"),
    "C04": ("full",
            "Both procedures are proved equal to the peeling specification for every population of equal-length fitnesses over any ordered field and every k: "
            "quadratic sort (C04.sortStd_eq_peel, sortStd_front_iff_depth, sortStd_every_individual_once, sortStd_subperm, sortStd_equal_fitness_same_front, "
            "sortStd_zero, sortStd_first_front_only) and the divide-and-conquer sort (sortLog_terminates, sweepA_correct, sweepB_correct, sortNDHelperA_correct, "
            "sortNDHelperB_correct, sortLog_eq_peel, sortLog_front_iff_depth, sortLog_first_front_only), hence sortLog_eq_sortStd (the former "
            "sortLog_eq_sortStd_Statement, now a theorem); spec theorems dominance_strict_partial_order, exists_nondominated, peel_partition, peel_front_iff_depth, "
            "leading_spec; the certificate theorem ranking_unique / checkRanking_sound is kept and its checker still runs on every output of both real procedures "
            "as independent evidence. Both procedures are diffed against the models on all populations n<=4 over {0,1,2}^m (m<=3), every k, both flags, plus random "
            "n<=40, m<=6; brute-force peeling is the oracle.",
            TB + "exact regime (integer/dyadic fitnesses); log-time sort for m >= 2 objectives and non-empty populations (as the code requires); fronts compared as "
            "sorted input indices (dict iteration order not modelled).",
            "Lean 4 proof of both sorting procedures against the peeling specification + proved certificate checker + differential correspondence + oracle"),
    "C05": ("full",
            "Lean theorems C05.* (selection_size, selection_subperm, front_priority, one_partial_front_crowding_cut, backend_agnostic, crowding_spec, "
            "selNSGA2_standard, selNSGA2_log) hold over every ordered field: both sorting back-ends provably deliver fronts meeting C04's specification "
            "(C04.sortStd_eq_peel, C04.sortLog_eq_peel), and the cut satisfies the contract for any such fronts; crowding_spec shows assignCrowdingDist equals the "
            "statement's formula on pairwise-distinct fronts. The correspondence replays the cut on the implementation's fronts and float distances, compares "
            "distances exactly or within 1e-9, and whole selNSGA2 on an exact family; the contract is evaluated as an oracle on the returned objects for both nd values.",
            TB + "float distances are compared with tolerance outside the exact family; nd='log' for m >= 2 objectives. "
            "Translator tie (harness/py2lean_c05.py, rules in its docstring): isDominated, median, splitA, splitB, assignCrowdingDist and selNSGA2 are regenerated "
            "from the current emo.py as Lean definitions on every run; 6 kernel-checked theorems (lean/DeapModel/GenEq/C05.lean.tmpl) state that the regenerated "
            "isDominated, splitA, splitB and assignCrowdingDist ARE the hand-written models (isDominated and assignCrowdingDist over any scalar, the splits over every "
            "ordered field) and that twice the regenerated median is the model's median2 (halving before adding, equal-middle shortcut and nan guard change nothing over "
            "an ordered field; nan/inf outside the rendering). selNSGA2 is rendered (sorters as parameters, crowding_dist as a store keyed by the individual) but its "
            "equality with cutWith/selFromFronts is not proved yet; sortNondominated, sortLogNondominated, sortNDHelperA/B, sweepA/B are refused (dict bookkeeping, "
            "recursion with a mutated dict, bisect/del/insert, while) and stay tied by the differential correspondence only.",
            "Lean 4 proof over a hand-written model + differential correspondence + oracle + translator tie (definitions regenerated from source, kernel-checked equal to the model)"),
    "C06": ("full",
            "Lean theorems (C06.k0*, length_*/refs_* for all eleven operators, best_sorted/worst_sorted, tournament_winner(+total), random_total, "
            "double_size_first_iff/double_fitness_first_iff/parsimony_rule/double_total_* (the parsimony stage: the smaller individual wins iff r < ps/2), "
            "roulette_share(+total, length), sus_total/sus_counts (0<r<1)/sus_counts_r0 (boundary draw, F13), lexicase_tol/lexicase_pareto/epsilon_lexicase_tol/"
            "auto_lexicase_tol/lexicase_step_total (the epsilon variants in the tolerance reading of DESIGN 6), length_dcd/refs_dcd/dcd_twice/dcd_total, "
            "roulette_shares_positions/sus_counts_positions (an object listed at several positions: every position keeps its sector, the total is over positions), "
            "sel_history_independent/sel_reads_weights_only (Core/SelectionHist.lean: in a session of class statements and selector calls a call gives what it gives when made "
            "first - nothing is kept between calls, the only thing read of the class is the weights it resolves to through the MRO now)) hold for every "
            "population, k and tape over exact rationals; model Core/Selection.lean is replayed against deap.tools.sel* and emo.selTournamentDCD with the tape of their "
            "own random draws (results compared as input indices, identity by `is`), incl. near-tie fitnesses a few ulps apart, fit_attr='other', the same object listed "
            "at several positions for every operator (mating pools) and negative values; histories of 2-6 calls in one process over fresh families of base / derived fitness "
            "classes (weights overridden or inherited, both orders of first use, re-used and re-evaluated population objects, alternating fit_attr and k) are replayed against "
            "Selection.runHistory as one request; the statement is evaluated as an oracle on the real result incl. population snapshots. "
            "Translator tie: selRandom, selBest, selWorst, selTournament, selRoulette, selStochasticUniversalSampling are regenerated from the source under test on every run "
            "(harness/py2lean_c06.py: individuals as positions, random.* as tape reads, loops with state / break / while) and the kernel checks Gen.<f> = Selection.<f> "
            "for every population, parameter and tape (GenEq/C06.lean.tmpl, 6 theorems); selLexicase / selEpsilonLexicase / selTournamentDCD are rendered without a theorem, "
            "selDoubleTournament (functools.partial) and selAutomaticEpsilonLexicase (numpy.median) are refused - these five stay tied by correspondence only.",
            TB + "exact regime: dyadic fitnesses, roulette/SUS draws j/1024 with S/k dyadic; CPython sorted/max/uniform and numpy.median as modelled; inf crowding "
            "distance transported as 10^6; SUS count clause assumes the uniform draw is not exactly 0.0 (F13, companion theorem sus_counts_r0); 'never copies' and "
            "'population unmodified' are structural in the model (indices into an immutable population) and checked on the real objects; randomness drawn outside the "
            "hooked functions is detected (generator state snapshots) and reported as a correspondence break (TAPE:).",
            "Lean 4 proof over a hand-written model + tape-replay differential correspondence + oracle + translator tie (definitions regenerated from "
            "source, kernel-checked equal to the model)"),
    "C20": ("partial",
            "Lean theorems over R/Q for all dimensions, objective counts, tapes and histories: dtlz1_sum (sum f_i = (1+g)/2), dtlz2..6_norm "
            "(sum f_i^2 = (1+g)^2, DTLZ5/6 on the repaired first objective), zdt1/2/3/4/6_f2 (f2 = g h(f1,g) with the published g), exact optima "
            "(plane, sphere, cigar, rosenbrock, rastrigin(+scaled,+skew), ackley, bohachevsky, griewank, schaffer, himmelblau(3,2)) and 0 as global "
            "minimum value for eight of them; trap/inv_trap maxima, royal_road1 = order x #complete blocks, chuang_f1/f2/f3 optimum values with upper "
            "bounds; bin2float_range/zeros/ones; translate_arg, scale_arg, rotate_arg (inverse contract), stack_arg, noise_adds, bound_id, rand_draw; mp_eval_max, mp_count_inv(+_total), changePeaks_total, mp_call_count, mp_init_dim; "
            "ackley/rastrigin variants non-negative, kursawe/fonseca/poloni/dent published forms, zdt g >= 1 and zdt1_front, dtlz7_structure. "
            "Benchmark objects (value-semantics model MovingPeaks.init / Bench.step / World.run): mp_init_functions (one function / list of exactly npeaks / "
            "longer pool sampled on the tape, after fixes F33 F34), mp_init_inv, mp_count_inv_bench and mp_eval_max_bench (count in limits, functions from the "
            "pool, evaluation = max along every history of changes and counted evaluations), mp_instances_independent (objects built from the same arguments "
            "never influence each other), mp_global_max, mp_maximums_visible, mp_error_step, popDiversity_nonneg/_equal; decorator histories "
            "translate_history / scale_history / rotate_history (the parameter installed last is in force); quality indicators igd_nonneg, igd_eq_zero_iff, "
            "convergence_nonneg, convergence_eq_zero_iff, diversity_nonneg/_single/_uniform; gp targets kotanchek_max, salustowicz_facts, unwrapped_ball_max, "
            "rational_polynomial_zero, sin_cos_facts, ripple_facts, rational_polynomial2_facts; schaffer_mo_front, h1_range, shekel_pos, royal_road2_ge_road1. "
            "Published-definition models (Core/Bench*.lean, MovingPeaks.lean) are diffed against deap.benchmarks on dimensions 0..30, 1..7 objectives, "
            "documented ranges + optima, exhaustive bit strings <= 9/12 bits, recording wrapped functions, the three moving-peaks scenarios through 50 "
            "changes on a recorded tape, worlds of 1-3 MovingPeaks objects built from one shared pfunc list / scenario dictionary through interleaved histories, "
            "decorator setter histories with fresh / re-used / in-place refilled argument objects, and the quality indicators of benchmarks.tools; an independent numpy/Fraction transcription of every formula and the front/decorator/moving-peaks clauses are the oracle.  "
            "Translator tie (second, tighter link between model and source): on every run harness/py2lean.py re-reads deap/benchmarks/{__init__,gp,movingpeaks,binary,tools}.py, renders 65 functions / methods "
            "(all 33 functions of __init__.py incl. rand on its tape, the 8 gp targets, cone / sphere / function1, MovingPeaks.__call__(count=False) / globalMaximum / maximums / offlineError as functions of the object's fields, "
            "trap / inv_trap / chuang_f1-3 / royal_road1 / royal_road2 (the while loop with its iteration bound order^2+1 proved) / bin2float's decoding, translate / scale __init__ / __call__ / setter, bound._clip/_wrap/_mirror) "
            "as Lean definitions Gen.<f> polymorphic in RealLike, and the kernel re-checks "
            "the committed theorems Gen.<f>_eq_model (over R resp. on all bit lists the regenerated definition equals the hand-written model on ALL inputs, `none` = the inputs the code rejects; DTLZ1-7 for every "
            "objective count >= 1 resp. >= 2, shekel for every a, c, royal_road1/2 and bin2float for every order / nbits) and Gen.<f>_eq_model_poly (equal as terms at every scalar, which pins the operation order the Float correspondence uses), 102 theorems in all; "
            "any change of a translated formula - below the 1e-9 tolerance or outside the sampled region alike - breaks a proof obligation before an input is sampled.",
            TB + "partial: theorems are over the reals/rationals; equality of each float function with its definition is a 1e-9 tolerance correspondence "
            "(IEEE rounding, libm and CPython's compensated sum are not modelled); optima documented to a few decimals (schwefel, three himmelblau minima, "
            "h1, shekel) are numeric tests; numpy.linalg.inv is a parameter with its inverse contract (likewise scipy's cdist for igd, replaced by a numpy stand-in where scipy is absent); a tape must be long enough and well typed for changePeaks to be defined; "
            "instance independence is a theorem of the value-semantics model, the absence of shared mutable state in the implementation is checked by the mpworld stream, not proved; "
            "the quality indicators, globalMaximum / maximums / offlineError are outside the statement and covered by model-vs-implementation comparison only; "
            "translator tie: the rendering rules and the prelude of harness/py2lean.py / Core/GenPrelude.lean are trusted, parameters are typed by a signature table (individual = list of floats: a change that only "
            "matters for another representation, e.g. numpy `+`, is invisible to it), exceptions of float operations are not rendered, the binary numeral rule covers 0/1 lists only, object fields are values (aliasing is not rendered), "
            "and MovingPeaks.__init__ / changePeaks / the count=True bookkeeping of __call__, rotate, noise, bound.__init__/__call__ and the quality indicators are outside the sub-language (refused, listed per run in "
            "evidence/C20.translated.json) - they stay tied by correspondence only.",
            "Lean 4 proofs over published-definition models + tolerance correspondence (Float instance) + independent reference-formula oracle "
            "+ translator tie (definitions regenerated from source, kernel-checked equal to the model)"),
    "C08": ("full",
            "Lean theorems (C08.never_raises, mirror(+_index), sorted_desc, keys_sorted, size_le, worst_monotone, members_shown, copies_fresh, copies_frame, "
            "pairwise_dissimilar (needs only a symmetric similarity), all_kept_while_room (reflexive+symmetric), best_of_seen(+_gt) (additionally: similar shown "
            "individuals have equal fitness - best_of_seen_needs_fit shows by a concrete history that this hypothesis is necessary); pf_never_raises, pf_mirror, "
            "pf_sorted, pf_copies, pf_antichain (any similarity, equal objective counts), pf_no_twins, pf_exact, dom_meaning; cutting and order: pf_update_batch_split / "
            "hof_update_batch_split (update(xs ++ ys) = update ys after update xs, for every archive state and capacity), pf_/hof_history_flatten and "
            "pf_/hof_batch_split_invariant (the archive, copy identities included, depends only on the sequence of individuals shown, not on where the batches end), "
            "pf_members_order_invariant / pf_members_perm_invariant (histories showing the same set of individuals - any permutation, any repetition - leave Pareto archives "
            "with the same set of member fitnesses, matched by similar members, and the same (genome, fitness) set when similar individuals have equal genomes)) hold for every history of update batches, "
            "every capacity >= 1, every genome type and every linearly ordered scalar, for the pure model Core/Archive.lean (two parallel lists, CPython's bisect loop, "
            "remove index arithmetic, to_remove deleted in reverse).  The deep-copy clause is a theorem about the heap-level model Core/ArchiveHeap.lean, whose members are "
            "object graphs in the heap of Core/Heap.lean and whose insert is copy.deepcopy as modelled and proved for C16 (memo, class-specific hooks): "
            "hof_/pf_/archive_members_fresh (every member is the first object of an oid range allocated by the archive's own deepcopy call and reaches only that range or "
            "immutable objects; ranges pairwise disjoint; nothing reachable from any individual ever submitted lies in a range; hence no mutable object is shared between "
            "a member and a submitted individual or between two members), hof_/pf_/archive_unaffected_by_writes (for every admissible continuation - heap writes through "
            "the caller's objects at any level, new objects, further updates - every surviving member denotes at every depth the pure value it denoted; keys[j] IS "
            "items[n-1-j].fitness, so keys mirror the members' fitness values in the heap as it is now; a continuation without update leaves members, keys and the denoted "
            "pure archive unchanged), heap_hof_refines / heap_pf_refines (lockstep: the heap-level archive denotes the pure archive run on the populations as they were "
            "when shown, same exceptions), heap_never_raises, heap_members_shown, and the transferred clauses heap_hof_order, heap_hof_best_of_seen, heap_pf_exact.  "
            "Both models are diffed against deap.tools.HallOfFame/ParetoFront: the pure one after every update on exhaustive short histories from four 6-individual "
            "universes plus random histories (re-submission, near-tie and large-magnitude fitnesses, batches of 11-40, capacities 16-40) and LARGE archives (Pareto fronts of "
            "16..129 members, 2-4 objectives of mixed weights, one individual dominating 16/17/32/33/64/65/128/129 members at once followed or preceded in the same batch "
            "by dominated / in-between / equal / twin / incomparable individuals, batches cut at random; halls of fame of capacity 16..200 with bulk evictions; the statement "
            "recomputed by brute force from the full log); the heap-level one on histories "
            "with in-place modifications of submitted objects at every level between the updates (gene and inner-list edits, strategy/meta/scalar attributes, "
            "fitness.values = ..., del fitness.values, new Fitness / strategy objects, re-filled genomes; list and set individuals), the caller's object graph being "
            "mirrored into the model's heap as write/alloc events and members/keys compared after every update and after every round of modifications (a member "
            "sharing anything with the caller, or a key that is not its member's own fitness object, prints differently).  The statement is evaluated as an oracle on the real archive.",
            TB + "Reading (DESIGN 6): the hall of fame identifies individuals by its similarity operator, so 'no distinct individual shown is strictly better than the "
            "worst member' is claimed for evaluations where similar individuals carry equal fitness. The heap-level theorems assume what C16's clone theorems assume of "
            "the submitted individuals (acyclic, within the recursion bound, CopyOK: the side conditions of DEAP's copy hooks), an instance attribute fitness, a similarity "
            "that is a function of the two individuals' pure values and fitnesses, and a caller that holds no reference into the archive's own copies (EvOK); that CPython's "
            "deepcopy dispatches to the modelled hooks is the correspondence (here and in C16). IEEE products of the test inputs exact. "
            "TRANSLATOR TIE (round 9): harness/py2lean_c08.py renders the methods of HallOfFame / ParetoFront from the CURRENT deap/tools/support.py as state-passing "
            "Lean definitions Gen08.<Class>_<method> (exceptions as Option, for / break / continue / for-else as G8.forLoop, index arithmetic in Int with Python's negative-index, "
            "IndexError, ZeroDivisionError and list.insert clamping rules, deepcopy as the model's copy parameter, bisect_right as Archive.bisectRight; rules = its docstring + "
            "Core/GenPreludeC08.lean, trusted); 9 methods (__len__, __getitem__, __iter__, __reversed__, insert, remove, clear, HallOfFame.update, ParetoFront.update) are regenerated "
            "on every run and kernel-checked equal to Core/Archive.lean on all inputs with len(keys) = len(items) (GenEq/C08.lean.tmpl, 10 theorems Gen08.*_eq_model; outside "
            "len(keys) = len(items) - unreachable by C08.mirror / pf_mirror - Python's negative index / IndexError and the model's truncated subtraction differ); __init__ and __str__ "
            "are refused and listed (evidence/C08.translated.json).",
            "Lean 4 proof over hand-written models (pure archive + heap-level archive composed with C16's deepcopy model) + differential correspondence + oracle "
            "+ translator tie (definitions regenerated from source, kernel-checked equal to the model)"),
    "C11": ("full",
            "Lean theorems (C11.complete_iff(+_count), typed_iff, searchSubtree_span (any Python index -len<=i<len; _span_nat/_index/_total), height_eq/height_deepest, "
            "splice_welltyped/_complete, gen_full/gen_grow/gen_half/gen_ramped, cx_closed, cxlb_closed, mutUniform_closed, nodeRepl_closed, ephemeral_closed, "
            "insert_closed, shrink_closed, op_closed, staticLimit_sound/_closed/_total/_fault/_height_total, ops_closed_history, ops_limit_history, add_pools_ok; "
            "round 7: semantic_mut_closed/_complete/_size, semantic_cx_closed/_complete/_size, semantic_missing_primitive for the geometric semantic operators (Core/GpSemantic.lean; "
            "closure over a GSGP signature, exact size formulas, child 2 of cxSemantic contains child 1), and pset_lookup_exact, pset_declared, pset_lookup_order_independent, "
            "pset_read_before_declare, pset_untyped for the declaration state machine of PrimitiveSetTyped / PrimitiveSet (Core/GpPset.lean: pools = exactly the declared symbols whose "
            "return type is a subclass of the key, independent of the declaration order, counters, terminalRatio) hold "
            "for every primitive set with the pool invariant, every tree and every tape; the history theorems are inductions over arbitrary finite sequences of "
            "(possibly static-limited) operators applied to the same tree objects. Core/GpTree.lean "
            "transcribes the list-level code of deap.gp and is diffed against it by replaying the recorded random draws on 20 primitive sets (4 loosely typed; 10 strongly "
            "typed incl. subclass pairs, object-rooted roots, a type with terminals only, a type with primitives only, two homonymous types; 6 with the vocabulary "
            "registered in shuffled order; psetOK_of_adds derives the pool invariant from the registrations) x all "
            "min<=max in 0..6 x all operators (bare and under staticLimit), searchSubtree at every int index, and operator histories (3-8 operators on the same objects with "
            "read-only calls, clones and pickle round trips in between, checked after every step and replayed as a whole by runHistory); mutSemantic / cxSemantic on 9 GSGP sets (incl. the "
            "assertion on sets lacking lf/mul/add/sub) and random declaration histories (typed / untyped, renamings, pool reads, name clashes) against the whole state of the real class; "
            "the statement is evaluated as an independent oracle. Round 9 TRANSLATOR TIE: the bodies of PrimitiveTree.root / height / searchSubtree / __setitem__ (slice key) / "
            "__str__ and gp.graph are re-read from the current deap/gp.py on every run, rendered as Lean definitions Gen.* (harness/py2lean_c11.py: imperative stack-machine sub-language, "
            "for = fold that stops at the first exception, while = fuel-bounded loop, in-place mutation in state-passing style) and the kernel re-checks 7 theorems: Gen.PrimitiveTree_root_eq_model (= rootL), "
            "_height_eq_model (= heightL), _searchSubtree_eq_model (= searchSubtreePy for EVERY Python int begin, incl. the wrap-around of begin < -len; _normalised is its begin >= -len half), "
            "_setitem_slice_eq_model (= setSlice for start <= stop), _str_eq_model (= some (strBuilder l) for node lists whose terminals have arity 0) and Gen.graph_eq_model (= range(len), graphEdges, "
            "enumerate graphLabels), so the C11/C12 theorems about the hand-written list-level models transfer to the code as it is.",
            TB + "the rendering rules of harness/py2lean_c11.py (docstring), the prelude Core/GenPreludeC11.lean and the signature table of harness/props/c11_translate.py (declared types, loop bounds); "
            "list slicing/slice assignment/issubclass; randint/randrange/choice contracts; deepcopy/pickle of a tree keep its node list (checked by the history replay); "
            "theorems speak about every result the generators return "
            "and gen_total/cx_total/cxlb_total/mut*_total/staticLimit_total prove that every well-typed tape of the stated length yields a result (no IndexError, termination); "
            "totality of a whole history is not stated as one theorem (it follows step by step from the per-operator totality theorems and the closure invariant).",
            "Lean 4 proof over a hand-written model + tape-replay correspondence + oracle + translator tie (definitions regenerated from source, kernel-checked equal to the model)"),
    "C12": ("partial",
            "Lean theorems (C12.str_eq_render, compileSrc_eq, tokens_render, fromString_eq_reparse, roundtrip, eval_roundtrip, adf_eval(+_two), compile_adf_independent) prove for all "
            "trees/arities that __str__'s stack machine prints the recursive text, that the tokenizer and the typed token loop of from_string parse it back to "
            "a tree with the same arities that prints and evaluates identically, and that compileADF evaluates innermost-first. NEW: the source text is no longer opaque — "
            "Core/PyExpr.lean models the Python expression sub-language the generated source lives in (tokenizer, parser to an AST Name/Constant/Call/USub/Lambda, evaluator with "
            "parameters shadowing globals), and C12.parse_compileSrc (the parser reads `lambda a,b: <str(tree)>` back as Lambda [a,b] (exprOfTree t), all arities and depths), "
            "evalPy_compile, evalSrc_compile (parse + evaluate the text in the namespace = evalTree with the arguments bound) and pyCompileADF_eq (compileADF through the source texts, ADF "
            "callables in the globals of the later lambdas = the tree-level compileADF) prove that the text means the tree, under the decidable hypotheses SrcOK/ArgsOK (names are "
            "identifiers, constants print as literals) which the driver evaluates on every compiled tree. Correspondence: 15 primitive sets (renamed/zero arguments, named terminals, "
            "mixed-type equal constants, typed int/bool/float, string sets with unnamed string constants, bool ephemerals in int slots), a same-name twin set, three-level ADF families incl. "
            "zero-argument ADFs, parent/offspring pairs compiled consecutively, trees of height 0..6 from generators and variation operators; for every source DEAP hands to eval (captured at "
            "gp.compile's own eval call): model AST = ast.parse of CPython, model value = compiled callable; plus generated and randomly edited texts of the sub-language. Round 7: "
            "graph_nodes_labels, graph_edges_tree, graph_unique_parent (gp.graph's stack loop returns exactly the parent->child edges of the prefix tree, len-1 of them, every non-root "
            "with one parent) and semantic_mut_denotes(+_real), semantic_cx_denotes(+_real), evalTree_is_evalG (the offspring of mutSemantic / cxSemantic denote "
            "ind + ms*(lf(tr1)-lf(tr2)) and lf(tr)*ind1 + (1-lf(tr))*ind2 - over any carrier and over the reals with the logistic function, where child 1 lies between the parents; "
            "child 2 contains child 1); correspondence: gp.graph on trees of every set, semantic offspring as tree sources, compiled offspring against the model's offspring and the closed formulas. "
            "Round 8: renaming HISTORIES — a tree object holds references to the set's argument terminals, renameArguments mutates them in place; Core/GpCompile.lean models the state as the "
            "current names by position (renameArgs, renameHistory, viewNode/viewTree, evalRef = the name-free direct interpretation, runSession) and C12.compile_after_rename_history / "
            "pyCompile_after_rename_history (for EVERY sequence of renamings, compile of the unchanged tree object under the final names = evalRef with argument i bound to the i-th value, "
            "given distinct final names that are no other node's text), session_last_observation (what str/compile return after any session of str/compile/rename steps is a function of the "
            "node list and the final names only), str_after_rename_history, rename_back prove it; correspondence + oracle: a first stream of histories on ONE fresh set and a few tree objects "
            "(str, compile, renameArguments plain/swap/3-cycle/freed-name/back/original/no-op, from_string round trip, deepcopy/pickle, the seven variation operators in place, compileADF "
            "families with renamings of the ADF sets, earlier callables called again), after every step compile(tree)(args) against the direct interpretation of the current nodes and str "
            "against the recursive printer under pset.arguments; one `hist` line per tree object and segment against runSession.",
            TB + "Still trusted (reason for 'partial'): that CPython's tokenizer/parser/evaluator of Name, Constant, Call, UnaryOp(USub) and Lambda nodes agrees with the Lean language model "
            "(compared on every run, AST against ast.parse and values against the compiled callable, not proved); repr of constants; IEEE arithmetic of Lean's Float.",
            "Lean 4 proof over a hand-written model + differential correspondence + oracle"),
    "C13": ("partial",
            "Lean theorems over R for all dimensions/populations: update_eq_spec (code form of Strategy.update = published (mu/mu_w,lambda) "
            "equations, spelled out by spec_*), centroid_mean, order_independent (+ sort_perm/sort_desc/sort_best), C_symm, sigma_pos, "
            "eig_reproduces (BD BD^T = C = B diag(d^2) B^T, B orthogonal, under the eigh contract), update_psd, history_consistent (all "
            "consistency clauses after every update of every history), weights_pos_noninc_sum1, params_defaults/params_user/default_rates_ok, "
            "lambda_default, generate_shape (exactly lambda individuals of the problem dimension, generate_some_iff)/sample_affine/sample_cov, order_independent_fitness/sort_best_fitness "
            "(at the real lexicographic fitness key), no_zero_division under WellPosed, numericsOk_satisfiable (the eigh contract is satisfiable for every n by the spectral theorem), "
            "update_frame / strategies_independent / args_frame / restart_fresh (in a program with several strategies and the caller's parameter objects, the state of strategy j is the fold of "
            "the steps addressed to j over its own initial state; no library step changes a caller object; a restart from the same objects starts from the same state) and "
            "computeParams_refresh (after lambda_ := k; computeParams the next update uses the refreshed mu, weights and learning rates only). The Float instance of the same definitions is diffed against numpy after "
            "every real update from the strategy's own pre-update state (dims 2..8, thorough 2..20; 1..50 generations; 3 schemes; default and "
            "user rates; 7 objectives incl. ties), and an independent numpy implementation of the published equations is the oracle, plus "
            "bit-exact order independence on permuted populations. Stream alias: 2..4 strategies built from SHARED start point / cmatrix / keyword "
            "dictionary objects, updated alternately, objects written by the caller between updates and re-used for restarts, populations re-used: every "
            "strategy equals its own separate model replay, non-addressed strategies and caller objects stay bit-identical.",
            TB + "numpy.linalg.eigh/argsort are parameters of the model (contract V^T V = I, C = V diag(w) V^T checked numerically on every "
            "answer); the N(0,I) sampler and IEEE rounding are trusted (Float model vs numpy: 1e-6 per entry along histories with cond(C) <= 1e8, "
            "1e-8 for parameters); theorems are over the reals.",
            "Lean 4 proof over a hand-written RealLike-polymorphic model + Float differential correspondence + independent-equations oracle"),
    "C15": ("partial",
            "Lean theorems (C15.hvCells_eq_volume: the grid specification equals the Lebesgue measure of the union of the boxes [p,ref) in EVERY dimension; "
            "hvSlice_eq_hvCells (discrete Fubini) and hvSlice_eq_volume for the executable reference; hvCells_set/perm/dup/dominated/boundary, hv_mono, hv_nonneg, "
            "hv_single, hv_inclusion_exclusion, hvIE_eq_hvCells, hv_1d(+_min), hv_2d staircase, indicator_least, population_coord/hv/hv_volume/default_ref) hold for all "
            "point lists and reference points over Q. pyhv's algorithm is transcribed (Core/HvSweep.lean: multi-linked list, hvRecursive with caches, bounds pruning and "
            "ignore marking) and diffed on every case against pyhv's value AND internal state; proved about it: sweep_eq_hvCells / sweep_eq_volume - the transcription returns the "
            "specification, hence the Lebesgue measure, in EVERY dimension (induction over the levels of hvRecursive with an invariant on the linked lists, the cached areas / "
            "volumes below the bounds and the soundness of the ignore marks: Lemmas/C15Gen1-7), plus sweep_terminates, sweep_restores_lists, sweep_1d/2d/3d as directly proved "
            "instances, hv_slab_step / hv_slab_decomposition, hvCells_coordinate_symmetry. The COMPILED routine _hv.c (fpli_hv: setup_cdllist, filter, hv_recursive VARIANT 4 with bound/vol/area caches, "
            "ignore marks, delete(_dom)/reinsert(_dom), the base cases dim==0, dim==1 and the 3-D base case dim==2 with its domr/bound[2] re-entry logic) is transcribed statement by statement "
            "(Core/HvC.lean; the embedded AVL library is abstracted to the ordered sequence it represents - the one thing not modelled) and diffed against the extension rebuilt from the working "
            "tree on every hypervolume case; proved about it: hvC_setup_filter and hvC_le_one_point in EVERY dimension (the lists after setup_cdllist+filter are the sorted orders restricted to the "
            "points strictly below the reference; n==0 / n==1), hvC_base_dim1/dim2/dim3 and hvC_eq_hvCells_partial / hvC_eq_volume_partial / hvC_total_partial for 1, 2 and 3 objectives (all inputs), "
            "hvC_base_dim3_fresh (the AVL-tree sweep on any well-formed list, entered with bound[2] = -DBL_MAX), hvC_staircase_area / hvC_staircase_update (the strip sum and the update formula "
            "l.955-982); and for EVERY number of objectives hvC_eq_hvCells / hvC_eq_hvCells_all / hvC_eq_volume / hvC_total (all inputs, also points beyond the reference, which filter drops; totality = no loop runs out of fuel): induction over the levels of hv_recursive "
            "with the level contract HvC.InvC / PostC (Lemmas/C15HvCInv.lean: lists = static orders restricted to the present nodes, area/vol caches below bound[i] = hypervolume of the prefix, "
            "ignore marks witnessed by a dominating present node, cached domr below bound[2] = third coordinate from which the node is beaten in the 2-D staircase) - hvC_dim3_reentry (the 3-D base "
            "case entered with ANY bound[2]: staircase rebuilt from the nodes with domr >= bound[2], cached vol/area of the last node below the bound, sweep of the rest; Lemmas/C15HvCRe*), "
            "hvC_general_step (reset, deletion to the bound with delete/delete_dom, cached start, reinsertion with reinsert/reinsert_dom, promotion of marks; Lemmas/C15HvCGen*), hvC_levels, "
            "hvC_eq_hvCells_dim4. The two statements that were kept visible as unproved until round 7 (hvC_eq_hvCells_Statement, hvC_total_Statement) are now theorems; nothing about the transcription is open. "
            "The dimension-sweep implementations (_hv.c rebuilt from the working tree on every run, pyhv.py) and the two wrappers "
            "with both backends are diffed against hvSlice on exactly representable inputs (exhaustive small domain, every permutation for <=5 points, tie-heavy d<=7), on "
            "general-position doubles (1e-12 relative against the exact Rat measure of the doubles' exact values), and under every calling convention (lists, tuples, int "
            "arrays, the same array twice, zero reference); an independent inclusion-exclusion oracle checks every answer.",
            TB + "partial: the proof covers the specification, the wrappers, and BOTH algorithms in every dimension (the transcriptions of pyhv.py and of _hv.c); that pyhv.py executes its "
            "transcription is the value-and-state correspondence, that the extension executes Core/HvC.lean is the value correspondence (the transcription's internal state - list orders, ignore, "
            "area, vol, bound, domr, calls - was validated once against an instrumented build on 50 000 tie-heavy cases, it is not part of the check because a value-preserving refactoring of the C "
            "code must not raise an alarm); the AVL library is abstracted to an ordered sequence; qsort is modelled as a stable sort "
            "(glibc: merge sort; the proofs only use that each list is a sorted permutation). IEEE products of the dyadic test inputs are exact "
            "(checked per case); C compiler, extension loading, numpy.argmax/max trusted.",
            "Lean 4 proof (Mathlib measure theory) over a specification-level model and two transcribed algorithms + differential correspondence of two implementations + oracle"),
    "C18": ("full",
            "Lean theorems C18.* over histories of any length (record, pop, del index/slice, stream, chapter streams, header settings): logbook and chapters are the "
            "image of the surviving records (rows_in_order, chapter_fields, chapters_aligned, record_deep_aligned at every chapter depth, del_exact_index/slice, "
            "del_out_of_range, pop_exact_deep/del_exact_deep), select columns, stream_positional (every position delivered at most once, all exactly once after a final "
            "stream; needs no distinctness), stream_at_most_once/stream_exactly_once (by value, for pairwise different records), header_once at full strength and "
            "header_first (F5 repaired and modelled), compile_spec/multi_compile_spec; MultiStatistics and its Statistics objects as MUTABLE state (Core/StatsHist.lean: heap of objects + dict name -> object, histories of alloc / register / ms.register / ms[k]= / del / update / |= / setdefault / pop / popitem / clear / fields / compile of any length): compile_after_history (fields / compile evaluations can be struck out of a history; compile = one Stats.compile record per item of the CURRENT dict), multi_compile_keys (keys of the record = keys of the dict, each once), register_overrides / register_overrides_multi (latest registration with its frozen arguments wins, in every stored object), fields_sorted_current; replayed step by step against deap.tools.MultiStatistics (`C18 mhist`), oracle after every compile; the TEXT: Core/LogbookText.lean transcribes __txt__ completely (column discovery, "
            "columns_len as pickled state, recursive chapter blocks with offsets, header block, '{0:n}' / '{0}' cell formatting for ints, None, strings and every "
            "double by exact rational arithmetic, center / expandtabs / left-justified tab template) and txt_shape, row_line_cells, str_all_rows, str_history, "
            "chapter_text_aligned (every logbook aligned at every depth: no raise, header block ++ exactly one formatted line per record, chapter blocks as long as "
            "the logbook), stream_text_once (exactly one data line per surviving record over everything the stream returned, at most one header block), "
            "stream_text_deep, pickle_transparent lift the state theorems to the returned lines; Core/Logbook.lean + Core/LogbookText.lean diffed after every op "
            "against deap.tools.Logbook (deep chapter comparison, every columns_len, the text of stream / str() / chapter streams VERBATIM, incl. logbooks that "
            "are not aligned where __txt__ raises or prints shifted lines); pickle round trips (protocols 0-5) continued on the copy and on the original; statement evaluated as oracle with plain list semantics, incl. shared dict objects, dict subclasses, records without scalars, repeated select "
            "names, tuple-valued keys, several frozen positional arguments.",
            TB + "text parser of the oracle (rid >= 100000, header line = cell 'rid'); records with uniform chapter names at every level; CPython str.format in the C locale, "
            "str.center, str.expandtabs (transcribed, diffed one by one); strings without newline; that pickle restores the state (the model's pickle is the "
            "identity) and a chapter's own exactly-once delivery are correspondence/oracle-only; after a raising stream the model sets header_streamed although the "
            "code does not (outside the premise, never executed).  TRANSLATOR TIE: harness/py2lean_c18.py (docstring = the accepted Python sub-language and "
            "the state-passing rendering: objects as records of their fields, dicts as association lists, partial as frozen-argument record, exceptions and "
            "recursion as Gen18.Res with a fuel bound) + Core/GenPreludeC18.lean are trusted; 10 methods of support.py are regenerated on every run "
            "(Statistics.register / compile, MultiStatistics.compile / fields / register, Logbook.select / stream / __str__ / pop / __delitem__) and proved equal "
            "to the model on all inputs (GenEq/C18.lean.tmpl, 11 theorems: compile for dicts with distinct keys, pop / del for every fuel >= chapter nesting "
            "depth, del slice on the index list slice.indices returns); Logbook.record and Logbook.__txt__ are refused (a call of __txt__ is rendered as the "
            "model's observation Logbook.txt) and stay tied by correspondence only; the signature table types buffindex as a length and names as numbers.",
            "Lean 4 proof over a hand-written model + differential correspondence + oracle "
            "+ translator tie (definitions regenerated from source, kernel-checked equal to the model)"),
    "C03": ("full",
            "Lean theorems (C03.truthful, evals_exact, nevals_logged, log_shape(+_gu), hof_fed, hof_shown_evaluated(+_gu) (every individual shown to the hall of fame "
            "carried its truthful fitness at that moment), every_boundary, eaSimple/eaMuPlusLambda/eaMuCommaLambda/eaMuPlusLambdaBest/harm/harmR/"
            "eaGenerateUpdate_correct, plus_monotone) hold for the generational machine of Core/Loops.lean for every ngen, every selection/variation/acceptance tape, "
            "every pure evaluate and every operator pair meeting C02's OpContract, at every generation boundary; HARM-GP's acceptance arithmetic is modelled "
            "(harm_accept_prob_nonneg, harm_accept_prob_unit_below_cutoff, harm_hist_needs_natural; harm_accept_prob_exceeds_one shows the threshold is not clamped - "
            "a threshold above 1 means 'always accept'). COMPOSED with the library components (Core/LoopsCompose.lean): the same generations run with the C08 model of "
            "HallOfFame(maxsize >= 1) fed by the loop - hof_best_ge_logged(+_gu), hof_best_not_lt_logged, hof_best_never_worse: at every boundary the first member is at "
            "least as good (C01 order) as every individual ever shown and as every member of the population at this and every earlier boundary, all C08 hypotheses "
            "(capacity, similarity = equal genotypes, similar => equal fitness, archive = update history from empty) discharged from the loop invariant; "
            "hall_of_fame_never_blocks; with the C06 models of selBest/selWorst/selRandom/selTournament as toolbox.select - eaSimpleC/eaMuPlusLambdaC/eaMuCommaLambdaC_correct "
            "(sizes from C06 length_*), plus_monotone_selBest (C06 best_sorted) and the counterexamples comma_not_monotone, tournament_not_monotone; list objects with "
            "identities - population_updated_in_place (the returned variable is the caller's list object, it holds the population, no other list is written), "
            "rebinding_is_not_in_place; the ask/tell protocol of eaGenerateUpdate - generate_update_protocol (every individual handed to update was produced by the "
            "preceding generate, carries evaluate of its genotype, evaluated exactly once). The real loops (GA, NSGA-II, GP incl. staticLimit-wrapped operators, gp.harm "
            "incl. the default natural population, CMA-ES and a persistent-individual ask/tell strategy), with and without hall of fame, statistics and verbose output, are "
            "replayed generation by generation through the abstract machine and, when a hall of fame is supplied, through the composed machine (model-computed selection "
            "vs real selected indices, model hall of fame vs real hall of fame, list identity, ask/tell record, at every boundary); the statement is evaluated as an "
            "oracle at every boundary. TRANSLATOR TIE: the definitions of eaSimple, eaMuPlusLambda, eaMuCommaLambda and eaGenerateUpdate are regenerated from the "
            "current deap/algorithms.py on every run (harness/py2lean_c03.py; the called varAnd / varOr by C02's translator) and kernel-checked equal to "
            "Loops.eaSimple / eaMuPlusLambda / eaMuCommaLambda / eaGenerateUpdate on every per-generation decision tape (GenEq/C03.lean.tmpl: Gen.<f>_eq_canon, "
            "Gen.<f>_eq_model; Lemmas/C03Gen.lean), so the C03 theorems speak about the code as it is; gp.harm stays tied by correspondence only.",
            TB + "the translator's rendering rules (docstring of harness/py2lean_c03.py, prelude Core/GenPreludeC03.lean; stats / verbose / logbook header not rendered); "
            "the CMA update's numerics are outside the model (only its ask/tell protocol and the order update() leaves the list in); selectors return members of their "
            "input; roulette and NSGA-II selections stay on the position tape (not computed by the composed model); initial population = distinct objects (the same "
            "unevaluated object listed twice is evaluated twice: outside the premise), pre-evaluated truthfully; evaluate pure; hall of fame similarity = equal genotypes "
            "(the default operator.eq).",
            "Lean 4 proof over a hand-written model, composed with the C06/C08 models + trace refinement + oracle + translator tie (definitions regenerated "
            "from source, kernel-checked equal to the model)"),
    "C07": ("full",
            "Lean theorems C07.*: SPEA2 returns exactly k distinct input objects, all non-dominated when #nd<=k, only non-dominated when #nd>=k, for every "
            "density value and every matrix of computed squared distances, overflowed (+inf) entries included (spea2V_len/sub_perm/all_nd_when_few/only_nd_when_many; "
            "truncation invariants spea2_to_remove_distinct for finite entries, spea2_to_remove_overflow: only position 0 can repeat, spea2_deletion_loop: the "
            "position-by-position deletion still removes one element per entry); the quick-select returns the order statistic (randomizedSelect_correct: on every "
            "pivot tape it terminates and returns entry floor(i) of the sorted sub-array; permutation invariant; reads only the integer part of its index); "
            "selSPEA2E = strengths, raw fitness, squared distances, quick-select and densities computed by the model from weights and weighted values "
            "(spea2_e2e_spec/density/terminates); NSGA-III niching/selNSGA3: exactly k distinct input objects, earlier "
            "fronts whole, niche balance, termination, for every shuffle tape; selNSGA3E = the C04 sort models + -wvalues + normalisation + association + niching "
            "(nsga3_e2e_spec incl. Pareto-depth priority, nsga3_e2e_terminates); uniform_reference_points: C(M+p-1,p) distinct simplex points incl. scaling; association "
            "= argmin of the distance to the reference line (over R); memory = order-independent monotone min/max; normalisation (ideal point, extreme points, intercepts with all fallbacks) "
            "modelled with positive denominators and translation invariance proved. "
            "Correspondence through the compiled driver end to end (spea2e: weights, weighted values and recorded pivot draws in, selection out; nsga3e: weighted values, "
            "reference points, solve answer and recorded shuffles in, selection out) and stage by stage on implementation-captured fronts, association, distances and densities "
            "(all magnitudes, incl. values j*1e150..1e300 whose squared distances overflow); the statement clauses are recomputed independently "
            "as oracle (brute-force ranks, perpendicular distance, balance from the returned selection). "
            "+ translator tie (definitions regenerated from source, kernel-checked against the model): _partition, _randomizedPartition, _randomizedSelect, "
            "gen_refs_recursive and the deletion loop of selSPEA2 are re-rendered from deap/tools/emo.py on every run (harness/py2lean_c07.py: imperative sub-language, "
            "state-passing, randint from the tape, fuel) and Gen.partition/randomizedPartition/randomizedSelect_refines_model (whenever the model answers, the regenerated code "
            "answers the same), Gen.genRefs_eq_model (equality over Q on the domain), Gen.spea2_del_refines_model (whenever the code finishes it computed delDesc) are re-proved.",
            TB + "translator tie: refinement, not equality, where the model answers none for a negative index that CPython wraps; the rest of selSPEA2 (attribute access, "
            "comprehensions) and the numpy functions are refused by the translator and stay tied by the differential correspondence only; "
            "the normalisation is modelled (ideal_min, extreme_argmin, intercepts_cases, intercepts_pos, norm_denominator_pos in full for the code after fix F21, "
            "association_translation_invariant) with numpy.linalg.solve as a parameter (any solve: the acceptance test guards its answer); the argmin theorem is over R, "
            "correspondence with tolerance 1e-9, near-ties compared on distances only (nsga3f/nsga3e lines are emitted for calls without a near-tie). The end-to-end SPEA2 model is exact "
            "arithmetic and is compared only on inputs whose float arithmetic is exact (decided from the input alone); for all other magnitudes the model is driven with the float "
            "distances (recomputed with the code's operations, cross-checked against the matrix in the implementation's frame) and the frame's line-759 values (theorems hold for any). "
            "K = sqrt(N) is represented by floor(sqrt N) (quickselect_floor).",
            "Lean 4 proof over hand-written models (loop invariants for truncation, niching, Hoare partition) + tape-replay correspondence + oracle + translator tie for the quick-select, the reference-point recursion and the SPEA2 deletion loop (definitions regenerated from source, kernel-checked refinements of the model)"),
    "C14": ("partial",
            "Lean theorems over Core/CmaElitist.lean for all inputs: elitism of both (1+lambda) strategies over any history (elitist_never_worse, "
            "active_elitist_never_worse), psucc in [0,1] / sigma>0 over any history (psucc_sigma_history, active_psucc_sigma_history, mo_psucc_sigma), "
            "rank_one_identity + inverse_update (Sherman-Morrison) for _rankOneUpdate with the magnitude guard (guard_sign_free), all three branches of the "
            "active update incl. the capped negative one (active_rank_one_positive/negative, active_inverse_update), infeasible_inv under the inv contract, "
            "active_update_inverse / mo_update_inverse for one whole update, the (1+lambda) success rule, A A^T=C under the Cholesky contract and "
            "preservation of positive definiteness (onepl_cov_rule, onepl_factor, onepl_posdef), MO selection count / rank-then-indicator closed form / "
            "alignment of the five per-parent lists (mo_select_count, mo_rank_then_hv, mo_alignment, mo_adjust_spec, mo_offspring_values), alignment BY IDENTITY for "
            "arbitrary _ps tags on the initial population (mo_alignment_any_initial_tags: generate overwrites the tag of every parent - retag_setTags -, so after a round "
            "entry i of every per-parent list is derived from the history of the i-th surviving individual itself, whatever stale tags a restarted population carried; "
            "mo_run_tag_independent for whole histories), and the "
            "whole-history invariants active_inverse_history (invA A = I through every rank-one branch and constraint update), mo_inverse_history, "
            "mo_psucc_sigma_history and onepl_factor_history (A A^T = C with A lower-triangular, C symmetric positive definite after every round, under the Cholesky "
            "contract on symmetric positive-definite input - cholOK_two exhibits it in dimension 2; onepl_sym/onepl_posdef re-establish the precondition each round), "
            "default-parameter ranges for all three strategies, init_psucc_unit, generate_round_ok (the MO round side conditions follow from generate). "
            "COMPOSITION (exact regime, Rat): mo_select_library instantiates _select with the C04 model of sortLogNondominated as the ranking and the C15 model of the "
            "hypervolume indicator (leastContributor) as the indicator (Core/CmaSelectLib.lean) and proves, with no contract hypothesis on either: exactly mu kept and "
            "nobody lost (mo_select_library_count), whole fronts in rank order with ranks = Pareto depth (mo_select_library_ranks, from C04.sortLog_eq_peel), and the "
            "split front loses, one at a time, the first individual whose removal loses the least hypervolume w.r.t. worst+1 over all candidates (LeastDrops, from "
            "C15.indicator_least; mo_ref_point, mo_indicator_is_library). elitist_never_worse_lex / active_elitist_never_worse_lex / active_elitist_never_worse_constrained: the whole-history elitism theorems with "
            "C01's models of Fitness and ConstrainedFitness __le__/__lt__ (lexicographic, any number of objectives) in place of an abstract total preorder "
            "(fitOrd_total, cfitOrd_total). No unproved statement remains. "
            "The composed model runs _select end to end (driver op mo-sel-lib) against the real StrategyMultiObjective._select on exactly representable bi-/tri-objective "
            "fitnesses and inside MO histories on plateau objectives. RESTART histories (a second strategy built from the shuffled / sorted / filtered parents, the next offspring or a mix "
            "of the first one's individuals, same objects and deep copies; likewise the (1+lambda) strategies from the previous parent object) are checked by object identity and replayed "
            "through the whole-round op mo-round from the raw tags the individuals carried. The Float instance of the same definitions is diffed against the real strategies on 1..300-round histories and the statement is evaluated "
            "as an oracle after every round while cond(A)<1e12.",
            TB + "numpy.linalg.cholesky/inv (LAPACK) and numpy.around are model parameters whose contracts (A A^T=C lower-triangular, inv(M) M=I) are validated "
            "numerically on every call; sortLogNondominated and the hypervolume indicator are the proved C04 / C15 models inside _select in the exact regime "
            "(mo_select_library) and remain answer tapes only in the Float replay of whole update() rounds (arbitrary doubles), where the oracle re-derives ranks and "
            "contributions; the dimension-sweep hypervolume code itself is tied to the C15 model by C15's correspondence; IEEE rounding: theorems are over "
            "the reals, correspondence uses relative tolerance 1e-9 (inverse checks scaled by cond).",
            "Lean 4 proof over a hand-written model (Mathlib matrices via a list<->Matrix bridge) + differential correspondence with tolerance + oracle"),
    "C16": ("partial",
            "Lean theorems C16.derived_create_fresh_attrs / derived_attr_class (creator classes DERIVED FROM creator classes, Core/HeapDerive.lean: the "
            "__init__ chain runs every class's own closure dict, child first, then base.__init__; every per-instance attribute declared by ANY class on the "
            "creator-MRO is a reference to an object allocated by that very constructor call, nothing reachable from an attribute of one instance is reachable "
            "from one of another, and a name declared on several levels keeps the declaration executed last, the root-most class's; replayed against histories "
            "create / instantiate / derive / instantiate over every base by Heap.runEvents), create_succeeds, fresh_attrs, clone_equal, create_then_clone, clone_disjoint, clone_shares_no_mutable, write_independent, "
            "clone_chain, pickle_equal, pickle_disjoint, meta_create_equivalent / meta_create_keeps_old / meta_create_old_instances / meta_create_rebinds "
            "(creating a class again under the same name yields an equivalent class, the old class object and its instances keep working, the module name "
            "is rebound), class_roundtrip, namespace_history_keeps_classes, pickle_class_independent_of_namespace / loaded_object_class_record / "
            "pickle_class_description (classes pickle by value: for EVERY sequence of creator.create / del between dump and load, in the same or another "
            "module, the load succeeds, the loaded heap is the dumper's own round trip with each class id replaced by a class made by this load, that "
            "class carries the pickled record - kind, weights/typecode/class-level constants, per-instance attribute names and their classes, "
            "identity-free description equal - it is never a class the namespace held, and existing classes are untouched), node_pickle_roundtrip / "
            "rename_keeps_node_names (every slot of every gp.Primitive / gp.Terminal survives __getstate__/__setstate__ after every history of "
            "renameArguments, which never writes a name slot), partial_call, decorate_keeps_frozen hold for every class table (classes mention earlier classes only, dict_inst "
            "names unique), every closed heap and every finite object graph meeting the hooks' stated side conditions, at every depth and chain length; "
            "Core/Heap.lean (deepcopy with memo + the five DEAP hooks as coded, incl. numpy.ndarray.__deepcopy__ for object-dtype arrays after fix F29, "
            "reduce-tuple pickling, init_type, functools.partial) is diffed against the real creator/clone/pickle on concrete object graphs with an "
            "identity-aware dump for all bases, attribute graphs with aliasing, protocols 0..5, same and fresh interpreter, namespace histories "
            "(create / re-create with the same keyword names and other values / delete / dump / load, replayed by Heap.nsRun/dumpP/loadP and compared by "
            "identity-free class descriptions and final bindings) and trees over primitive sets with renamed arguments (Heap.Gp); the statement (equal "
            "abstraction, equivalent class, no shared mutable object, mutation in both directions) is an oracle on the real objects. tools.initRepeat / initCycle / "
            "initIterate (Core/Init.lean: the generator expressions as call sequences of side-effecting functions): initRepeat_calls (func called exactly n times, results "
            "in call order), initCycle_calls (n passes over the function sequence, n*len results), initIterate_spec, initRepeat_fresh_attrs (consecutive individuals built "
            "from a creator class: items = the calls' results in order, per-instance attributes fresh: composition with fresh_attrs); replayed (protocol op `init`) with "
            "counting closures on every base (list, array b/i/d, ndarray, set, dict).",
            TB + "partial: that CPython's copy/pickle/metaclass machinery dispatches to the modelled hooks (e.g. __reduce_ex__ precedence, F11; __slots__/__getstate__, F15) "
            "is runtime behaviour only the correspondence sees; so are the pickle protocols, the fresh interpreter and the picklability of toolbox aliases "
            "(no theorem speaks of them); acyclic graphs; pickle model is a tree (internal sharing checked by oracle only); dtype of an empty ndarray is not content.",
            "Lean 4 proof over a hand-written heap model + differential correspondence (in-process and fresh interpreter) + oracle with mutation test"),
    "C17": ("partial",
            "Lean theorems, four layers. (1) Algebra of checkpointing and order-preserving maps for every step function, crash list and completion schedule: "
            "C17.deterministic(_on), run_add, resume(_at), resumeFrom_eq, resume_many(_from), resume_needs_complete_state, schedule_independent/covering/missing, "
            "pmap_eq_some_iff, loop/init_mapper_independent, loop_schedule_independent, genLoop_eq_run. (2) The same three equations for the generational machine "
            "of Core/Loops.lean that C02/C03 are proved about: state_complete(_core) (the loop state - population with fitnesses, hall-of-fame feed, logbook rows, "
            "evaluation counts, oid counter - together with the unread remainder of the tape determines the continuation), runGens_eq_run, c03_resume(+_machine, "
            "_via_run, _runPop) and its corollaries for eaSimple / eaMuPlusLambda / eaMuCommaLambda / harm / eaGenerateUpdate at every generation boundary of every "
            "run, c03_resume_needs_tape (dropping the generator state from the checkpoint changes the run: the hypothesis is necessary), c03_evalPhase_seq/"
            "_mapper_independent/_schedule_independent/_schedule_at and the lifts c03_generation/runGens/runPop/eaSimple_schedule_independent (any mapper that "
            "returns the evaluations in input order, completed under any schedule, gives the same run). (3) Hidden state made explicit (Resume.HRun: a step that "
            "reads and writes a component H the checkpoint does not save): resume_of_hidden_constant / rerun_of_hidden_constant (a step that never WRITES H resumes "
            "and repeats correctly - the premise the runtime hidden-state detector checks), resume_iff_hidden_irrelevant (for a step that does write H: resumption "
            "is correct for every start state, restart value and crash point IFF the visible output never depends on H), rerun/restoreSame_of_hidden_irrelevant, "
            "hidden_state_breaks_resume (the module-level cycle of seeded change C17-r4m3 as a concrete machine where every equation fails), hrun_unit, and the lift "
            "c03_resume_hidden_constant to the C03 machine whose tape is (generator states, hidden component). (4) tools.migRing (Core/Migration.lean, transcribed "
            "incl. its ValueError/IndexError paths and compared with the real function on 150/1500 inputs per run): migRing_deterministic (a function of the demes, "
            "k, the migration array and of what the callables return on these demes), migRing_shape (number and sizes of demes kept), migRing_conserves (no "
            "replacement strategy, equally many emigrants per deme, permutation array: the multiset of genomes is unchanged). The runtime check (17 families in harness/props/"
            "c17_families.py: GA on lists, NSGA-II, SPEA2, NSGA-III with memory, GP with ephemerals, CMA-ES, (1+lambda)-CMA, MO-CMA-ES with mu=,<,>lambda, float32 "
            "numpy ES, CMA-ES N=30, GA with MultiStatistics and a streamed logbook, two strongly typed GP families, GP with partial(random.randint) ephemerals and an "
            "odd population, GA on 3 demes with migRing; shared-object variants; the 4 packaged loops) evaluates the three equations on the "
            "implementation: twice in-process and in a fresh interpreter; twice in a row at run lengths 0,1,(2); every checkpoint restored in the same process; a deep "
            "fingerprint of ALL module-level and class-level state of every deap.* module (containers, iterators, class attributes, function defaults, closure cells) "
            "and of the script's primitive sets around every family run and around one call of each of the 89 public operators of deap.tools/gp/algorithms/cma - state "
            "a run leaves behind is reported as a correspondence break naming the attribute; kill -9 after EVERY generation of EVERY family (quick: two pickle protocols per crash point "
            "rotating over all six, thorough: all six, 3 seeds) and resume in a new process; fork pools of 1..8 workers and one spawn pool with per-task delays, all "
            "24 permutations of small map calls - comparing complete fingerprints (genomes with dtype, fitness, archives with keys, logbooks incl. chapters and "
            "stream position, strategy and selector-memory arrays byte-wise, both generator states).",
            TB + "partial: the theorems speak about the abstract machine (pure evaluate, operators meeting C02's OpContract, randomness as a tape); that every real "
            "object pickles its complete state, that no operator keeps state outside the two generators, that evaluation is pure and that CPython's hash seed does "
            "not leak into any draw is what the process-level oracle and the hidden-state detector test, not a theorem (the detector cannot see state held inside C "
            "objects without __reduce__). The protocol lines pmap / resume / hresume "
            "tie only the driver's algebra to harness-local helpers and to completion orders observed in real pools; the mig lines tie Migration.migRingWith to tools.migRing. OS (SIGKILL, fresh process), multiprocessing.Pool.map as an order-"
            "preserving map, and the fingerprint's completeness are trusted.",
            "Lean 4 proof over the C03 loop machine (state completeness, resume, schedule independence, hidden-state non-interference) and over a model of migRing + "
            "process-level differential testing (kill/resume at every generation and protocol, permuted and pooled maps) + hidden-state fingerprinting of the library"),
}

NOT_YET = {}


def main():
    props = [json.loads(l) for l in open(os.path.join(VERIF, "properties.jsonl"))]
    checks, na = [], []
    for p in props:
        pid = p["id"]
        if pid in CHECKS:
            kind, text, note, tech = CHECKS[pid]
            checks.append({
                "property_id": pid,
                "quick_cmd": "/venv/bin/python harness/vcheck.py %s --tier quick" % pid,
                "thorough_cmd": "/venv/bin/python harness/vcheck.py %s --tier thorough" % pid,
                "evidence_file": "evidence/%s.json" % pid,
                "replay_cmd_template": "/venv/bin/python harness/vcheck.py %s --replay {path}" % pid,
                "engine": "lean4-model+correspondence",
                "level_claimed": {"category": "proof",
                                  "text": ("[%s] " % kind) + text,
                                  "design_ref": "DESIGN.md section 7, %s" % pid},
                "level_note": note,
                "technique": tech,
            })
        else:
            na.append({"property_id": pid,
                       "reason": NOT_YET.get(pid, "not claimed yet: the Lean model, theorems and correspondence check for this "
                                                  "property are not built at this commit (see DESIGN.md section 7 for the plan)")})
    man = {
        "version": 1,
        "setup_cmd": "cd lean && lake build",
        "hooks": {
            "guard": "DEAP_VERIF",
            "enable": "none needed: checks observe DEAP through its public API and by wrapping random/numpy.random in the harness process",
            "baseline_off_cmd": "cd /repo && env -u DEAP_VERIF /venv/bin/python -m pytest -ra -q -p no:cacheprovider --timeout=900 --continue-on-collection-errors",
            "source_commits": [],
            "add_only": True,
        },
        "engines": [{
            "name": "lean4-model+correspondence",
            "path": "harness/vcheck.py",
            "serves_properties": [c["property_id"] for c in checks],
            "kind_free_text": "Lean 4 theorems about hand-written executable models (lean/DeapModel), a compiled import-free Lean "
                              "driver answering a line protocol, and a Python harness that runs the real DEAP code on the same inputs, "
                              "diffs the answers and evaluates the property as an oracle; failing-input search when a proof or the "
                              "correspondence breaks",
        }],
        "checks": checks,
        "not_applicable": na,
        "notes": "See DESIGN.md. Seeds via VERIF_SEED. Exit 2 = infrastructure/timeouts (never a VIOLATION).",
    }
    with open(os.path.join(VERIF, "MANIFEST.json"), "w") as fh:
        json.dump(man, fh, indent=1)
        fh.write("\n")
    try:
        import jsonschema
        jsonschema.validate(man, json.load(open("/root/.vp/MANIFEST.schema.json")))
        print("MANIFEST.json valid; %d checks, %d not claimed" % (len(checks), len(na)))
    except ImportError:
        print("MANIFEST.json written (jsonschema not available here)")


if __name__ == "__main__":
    sys.exit(main())
