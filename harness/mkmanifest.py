#!/venv/bin/python
"""Regenerates /verif/MANIFEST.json from the table below (so it is always schema-valid)."""
import json
import os
import sys

HERE = os.path.dirname(os.path.abspath(__file__))
VERIF = os.path.dirname(HERE)

TB = ("Trusted: Lean 4.33 kernel; axioms propext/Classical.choice/Quot.sound only (audited per run with #print axioms; "
      "no sorry/admit/native_decide/bv_decide/own axioms — grepped per run); the hand-written model is tied to /repo "
      "only by the differential correspondence run of this check (harness + Lean driver parser/printer trusted); ")

# pid -> (full|partial, text, note, technique)
CHECKS = {
    "C01": ("full",
            "Lean theorems (C01.lt_iff_lex, le_iff_lt_or_eq, gt/ge_iff_swap, trichotomy/irrefl/asymm/trans, weighted_order_neg/pos, "
            "values_roundtrip, dominates_iff(+pointwise), valid_history, clone_eq, cclone_eq, constrained_table/both/neither) hold for every "
            "linearly ordered field, every tuple length and every index list; model Core/Fitness.lean is diffed against deap.base on an "
            "exhaustive small domain plus random dyadic inputs, and the statement itself is evaluated as an oracle on the real objects.",
            TB + "IEEE products of the small dyadic test inputs are exact (model uses Rat); CPython tuple comparison/slicing modelled in Core/Py.lean.",
            "Lean 4 proof over a hand-written model + differential correspondence + oracle"),
}

NOT_YET = {}


def main():
    props = [json.loads(l) for l in open(os.path.join(VERIF, "properties.jsonl"))]
    checks, na = [], []
    for p in props:
        pid = p["id"]
        if pid in CHECKS:
            kind, text, note, tech = CHECKS[pid]
            checks.append({
                "property_id": pid,
                "quick_cmd": "/venv/bin/python harness/vcheck.py %s --tier quick" % pid,
                "thorough_cmd": "/venv/bin/python harness/vcheck.py %s --tier thorough" % pid,
                "evidence_file": "evidence/%s.json" % pid,
                "replay_cmd_template": "/venv/bin/python harness/vcheck.py %s --replay {path}" % pid,
                "engine": "lean4-model+correspondence",
                "level_claimed": {"category": "proof",
                                  "text": ("[%s] " % kind) + text,
                                  "design_ref": "DESIGN.md section 7, %s" % pid},
                "level_note": note,
                "technique": tech,
            })
        else:
            na.append({"property_id": pid,
                       "reason": NOT_YET.get(pid, "not claimed yet: the Lean model, theorems and correspondence check for this "
                                                  "property are not built at this commit (see DESIGN.md section 7 for the plan)")})
    man = {
        "version": 1,
        "setup_cmd": "cd lean && lake build",
        "hooks": {
            "guard": "DEAP_VERIF",
            "enable": "none needed: checks observe DEAP through its public API and by wrapping random/numpy.random in the harness process",
            "baseline_off_cmd": "cd /repo && env -u DEAP_VERIF /venv/bin/python -m pytest -ra -q -p no:cacheprovider --timeout=900 --continue-on-collection-errors",
            "source_commits": [],
            "add_only": True,
        },
        "engines": [{
            "name": "lean4-model+correspondence",
            "path": "harness/vcheck.py",
            "serves_properties": [c["property_id"] for c in checks],
            "kind_free_text": "Lean 4 theorems about hand-written executable models (lean/DeapModel), a compiled import-free Lean "
                              "driver answering a line protocol, and a Python harness that runs the real DEAP code on the same inputs, "
                              "diffs the answers and evaluates the property as an oracle; failing-input search when a proof or the "
                              "correspondence breaks",
        }],
        "checks": checks,
        "not_applicable": na,
        "notes": "See DESIGN.md. Seeds via VERIF_SEED. Exit 2 = infrastructure/timeouts (never a VIOLATION).",
    }
    with open(os.path.join(VERIF, "MANIFEST.json"), "w") as fh:
        json.dump(man, fh, indent=1)
        fh.write("\n")
    try:
        import jsonschema
        jsonschema.validate(man, json.load(open("/root/.vp/MANIFEST.schema.json")))
        print("MANIFEST.json valid; %d checks, %d not claimed" % (len(checks), len(na)))
    except ImportError:
        print("MANIFEST.json written (jsonschema not available here)")


if __name__ == "__main__":
    sys.exit(main())
