#!/venv/bin/python
"""coverage.py — which top-level functions / classes of the deap package are anchored by a property's check.

Reads ANCHORS of every harness/props/cXX.py ((file, [names]) pairs: the code the Lean models were written from and whose
AST hashes harness/anchors.json pins) and lists, per deap source file, the public top-level definitions that no check
anchors.  Informational (exit 0): used to decide where the models should grow next; the table goes to DESIGN.md."""
import ast
import importlib
import os
import sys

VERIF = os.path.dirname(os.path.dirname(os.path.abspath(__file__)))
sys.path.insert(0, os.path.join(VERIF, "harness"))
REPO = os.environ.get("DEAP_REPO", "/repo")


def main():
    anchored, whole = {}, {}
    for i in range(1, 21):
        pid = "C%02d" % i
        mod = importlib.import_module("props." + pid.lower())
        for fn, names in getattr(mod, "ANCHORS", []):
            if not names:                          # [] anchors the whole file
                whole.setdefault(fn, set()).add(pid)
            for n in names:
                anchored.setdefault((fn, n.split(".")[0]), set()).add(pid)
    rows = []
    for root, _, files in os.walk(os.path.join(REPO, "deap")):
        for f in sorted(files):
            if not f.endswith(".py"):
                continue
            path = os.path.join(root, f)
            rel = os.path.relpath(path, REPO)
            tree = ast.parse(open(path).read())
            defs = [n.name for n in tree.body if isinstance(n, (ast.FunctionDef, ast.ClassDef)) and not n.name.startswith("__")]
            cov = [(d, sorted(anchored.get((rel, d), set()) | whole.get(rel, set()))) for d in defs]
            rows.append((rel, cov))
    tot = sum(len(c) for _, c in rows)
    hit = sum(1 for _, c in rows for _, p in c if p)
    print("%d of %d top-level definitions of deap/ are anchored by a check" % (hit, tot))
    for rel, cov in sorted(rows):
        if not cov:
            continue
        miss = [d for d, p in cov if not p]
        print("%-38s %3d/%3d  not anchored: %s" % (rel, len(cov) - len(miss), len(cov), ", ".join(miss) or "-"))
    return 0


if __name__ == "__main__":
    sys.exit(main())
