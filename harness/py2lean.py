"""py2lean — translator from a small, explicitly delimited Python sub-language to Lean 4 definitions.

Used by the C20 check as the TRANSLATOR TIE: the bodies of the benchmark functions are re-read from /repo's current
source on every run, rendered as Lean definitions `Gen.<f>` (polymorphic in `RealLike α`, Core/Scalar.lean) and a
committed theorem `Gen.<f> (α := ℝ) … = Bench.<f> …` is re-checked by the Lean kernel.

THIS DOCSTRING IS THE TRANSLATOR'S TRUSTED BASE: the sub-language and the rendering rules.  Everything that is not
listed is REFUSED (`Refuse`), never guessed.  The Lean helpers the rendering uses are lean/DeapModel/Core/GenPrelude.lean.

Value types        float -> α            int -> Int           bool (only as a condition) -> decidable Prop
                   list / tuple / generator / zip / range / enumerate -> List      pair bound by `for a, b in` -> (A × B)
                   an exception (IndexError, ZeroDivisionError of an int divisor, TypeError of reduce on an empty
                   sequence) -> `none`: every translated function has result type `Option R`.
Parameter types    come from the caller-supplied signature table (`individual: list of float`, `obj: int`, ...); that
                   table is an assumption of the tie, like the ASSUMPTIONS of the check.
Result             `return a, b` and `return [..]`/a list variable -> `some [a, b]` (tuple and list are both a Lean list);
                   `return x` with a float / int x -> `some x`.  All `return`s of a function must have one type.

Expressions
  literals         float literal: the SOURCE TEXT of the literal is read as an exact decimal with decimal.Decimal
                   (digits·10^exp, not repr, not as_integer_ratio), checked to round to the parsed constant, and rendered
                   `RealLike.ofNat n` when integral, else `RealLike.ofRatio digits 10^k` (unreduced, both < 2^53 so that the
                   Float instance computes the correctly rounded literal).  int literal -> `(n : Int)`; where an int meets a
                   float it is coerced: literal n >= 0 -> `RealLike.ofNat n`, other -> `Gen.ofInt e`.
  names            parameters, locals, `pi` -> `RealLike.pi`, `e` -> `RealLike.exp (RealLike.ofNat 1)`, resolved through the
                   module's `from math import …` / `import math` statements (aliases followed; a local shadows).
  + - * unary -    same type on both sides after coercion (int op int stays Int); list + list -> `++`.
  /                true division, result float.  int-typed divisor d (other than a non-zero literal, which is coerced): guarded, `Gen.nz d` (= `none` when d = 0), then
                   `Gen.idiv a d` (int / int) or `a / Gen.ofInt d`.  float-typed divisor: RealLike `/`.
                   NOT RENDERED: ZeroDivisionError / OverflowError / ValueError / complex results of float operations
                   (float division by 0.0, sqrt or fractional power of a negative float, exp overflow).
  // %             int only, guarded by `Gen.nz`, `Int.fdiv` / `Int.fmod` (floor semantics).
  **               float ** literal natural n -> `Gen.ipow x n` (n-1 multiplications); float ** float-literal / float
                   expression, int-literal ** float expression -> `RealLike.pow`; int ** literal natural -> `^` on Int.
  comparisons      one operator; < > <= >= on floats/ints (`a > b` is rendered `b < a`), == != on ints only.
                   `and` / `or` / `not` of such conditions when no operand can raise.
  a if c else b    `if c then a else b`; a branch that can raise stays inside its branch.
  x[i]             literal i >= 0 -> `x[i]?`, other int -> `Gen.index x i` (negative counts from the end); `none` = IndexError.
                   (the same raising term met twice in one scope is bound once — all exceptions are the one `none`.)
  x[a:b]           step 1 only: `x[k:]` -> `List.drop k`, `x[:k]` -> `List.take k` (literal k >= 0), `x[:-1]` -> `List.dropLast`,
                   anything else -> `Gen.slice x lo hi` (CPython's bound adjustment).
  calls            sin cos sqrt exp log (math) -> RealLike.*; abs; len; float(int); sum(list of float) -> `RealLike.sum`
                   (left to right from 0), sum(list of int) -> `Gen.isum`; reduce(mul | lambda x, y: x * y | 2-argument
                   lambda, seq, init) -> `RealLike.prod init seq` / `List.foldl`; reduce(f, seq) -> `Gen.reduce1` (empty = none);
                   zip(a, b); enumerate(a); range(a) / range(a, b) / range(a, b, -1); reversed; list; tuple;
                   a call of a local `lambda` / nested `def` / function of the same module: INLINED (parameters become
                   `let`s, free variables are read at call time as Python does).
  comprehensions   generator expression / list comprehension with ONE `for`, no `if`: `List.map`, or `List.mapM` when the
                   element expression can raise.
  displays         `[a, b]`, `(a, b)`, `a,` -> Lean list (non-empty).
Statements         docstring; `v = e`; `a, b = e1, e2` (names only); `v op= e` (+ - *); `return e`; `if / elif / else` (the rest of the block is
                   duplicated into both branches); `lst.append(e)`, `lst.extend(seq)`;
                   `for t in seq:` in two shapes only —
                     accumulation: the body assigns exactly one already defined scalar variable and cannot raise
                                   -> `List.foldl`;
                     list building: the body appends to exactly one list (exactly once on every path), may bind fresh
                                   locals, use `if/else` and `continue` -> `lst ++ (seq.map …)` / `mapM`;
                   (a loop variable that re-uses a name, or is used after its loop, and a body that reads the list it
                   builds are refused);
                   nested `def` / `v = lambda …` -> inlined at the calls (a captured variable must not be re-assigned
                   after the definition unless the call reads the new value, which the live environment gives).
REFUSED, e.g.      while, try, with, classes, decorators, global/nonlocal, *args/**kwargs, keyword arguments, attribute access
                   other than `math.<name>`, string / bytes / None / complex values, `is`, `in`, chained comparisons,
                   comprehension `if`s and nested `for`s, slices with a step, any call not listed, recursion.
"""
import ast
import decimal
import os
import re
from fractions import Fraction


class Refuse(Exception):
    pass


F = ("F",)
I = ("I",)
B = ("B",)


def L(t):
    return ("L", t)


def P(a, b):
    return ("P", a, b)


def lean_type(t):
    if t == F:
        return "α"
    if t == I:
        return "Int"
    if t[0] == "L":
        return "List %s" % lean_type_atom(t[1])
    if t[0] == "P":
        return "%s × %s" % (lean_type_atom(t[1]), lean_type_atom(t[2]))
    raise Refuse("no Lean type for %r" % (t,))


def lean_type_atom(t):
    s = lean_type(t)
    return s if " " not in s else "(%s)" % s


class Val:
    """a compiled pure Lean term with its sub-language type; `lit` = the Python int literal it came from"""
    def __init__(self, term, ty, lit=None):
        self.term, self.ty, self.lit = term, ty, lit


class Macro:
    """a lambda / nested def / module function, inlined at every call"""
    def __init__(self, params, body, env, name, is_expr):
        self.params, self.body, self.env, self.name, self.is_expr = params, body, env, name, is_expr


LEAKED = object()


class Env:
    def __init__(self, parent=None):
        self.d, self.parent = {}, parent

    def get(self, k):
        e = self
        while e is not None:
            if k in e.d:
                return e.d[k]
            e = e.parent
        return None

    def set(self, k, v):
        self.d[k] = v


class Scope:
    """entries evaluated in order before the scope's result: ('let', name, term) | ('bind', name, option-term)"""
    def __init__(self):
        self.entries = []

    def partial(self):
        return any(e[0] == "bind" for e in self.entries)


MATH_FUN = {"sin": "RealLike.sin", "cos": "RealLike.cos", "sqrt": "RealLike.sqrt", "exp": "RealLike.exp",
            "log": "RealLike.log"}
LEAN_RESERVED = set("fun let in if then else do end at by from have show match with def theorem where open".split())


class FunctionTranslator:
    def __init__(self, module, fn, sig):
        self.m, self.fn, self.sig = module, fn, sig
        self.counter = 0
        self.inline_depth = 0
        self.inline_stack = []
        self.ret_ty = None

    # -- names -----------------------------------------------------------------------------
    def fresh(self, base="t"):
        self.counter += 1
        return "%s%d" % (base, self.counter)

    def lname(self, py):
        base = "v_" + py if self.inline_depth == 0 else "v%d_%s" % (self.inline_depth, py)
        return base

    # -- literals --------------------------------------------------------------------------
    def float_literal(self, node):
        text = ast.get_source_segment(self.m.src, node)
        if text is None:
            raise Refuse("float literal without source text")
        text = text.strip().replace("_", "")
        try:
            d = decimal.Decimal(text)
        except decimal.InvalidOperation:
            raise Refuse("float literal %r is not a decimal" % text)
        if not d.is_finite():
            raise Refuse("non-finite literal %r" % text)
        sign, digits, exp = d.as_tuple()
        n = int("".join(map(str, digits)) or "0")
        if sign:
            raise Refuse("signed literal token %r" % text)
        if exp >= 0:
            num, den = n * 10 ** exp, 1
        else:
            num, den = n, 10 ** (-exp)
            while den > 1 and num % 10 == 0 and num != 0:   # 1.50 -> 15/10, 1.0 -> 1 (trailing zeros only)
                num //= 10
                den //= 10
            if num == 0:
                den = 1
        if Fraction(num, den) != Fraction(text):
            raise Refuse("literal %r: internal rendering error" % text)
        if float(Fraction(num, den)) != node.value:
            raise Refuse("literal %r does not round to the parsed constant %r" % (text, node.value))
        if num >= 2 ** 53 or den >= 2 ** 53:
            raise Refuse("literal %r needs more than 53 bits" % text)
        if den == 1:
            return Val("(RealLike.ofNat %d : α)" % num, F)
        return Val("(RealLike.ofRatio %d %d : α)" % (num, den), F)

    # -- coercions -------------------------------------------------------------------------
    def toF(self, v):
        if v.ty == F:
            return v
        if v.ty == I:
            if v.lit is not None:
                if v.lit >= 0:
                    return Val("(RealLike.ofNat %d : α)" % v.lit, F)
                return Val("(-(RealLike.ofNat %d) : α)" % (-v.lit), F)
            return Val("(Gen.ofInt %s : α)" % v.term, F)
        raise Refuse("a %r where a number is needed" % (v.ty,))

    def unify(self, a, b):
        if a.ty == b.ty:
            return a, b
        if {a.ty, b.ty} == {F, I}:
            return self.toF(a), self.toF(b)
        raise Refuse("operands of types %r and %r" % (a.ty, b.ty))

    # -- expressions -----------------------------------------------------------------------
    def bind(self, sc, optterm, ty, base="t"):
        # the same partial term evaluated twice in one scope (e.g. `individual[0]` five times) is bound once,
        # unless a variable it mentions was re-assigned in between
        for k, ent in enumerate(sc.entries):
            if ent[0] == "bind" and ent[2] == optterm:
                later = [x[1] for x in sc.entries[k + 1:] if x[0] == "let"]
                if not any(re.search(r"(?<![\w.])%s(?![\w])" % re.escape(nm), optterm) for nm in later):
                    return Val(ent[1], ty)
        n = self.fresh(base)
        sc.entries.append(("bind", n, optterm))
        return Val(n, ty)

    def expr(self, e, env, sc):
        meth = getattr(self, "e_" + type(e).__name__, None)
        if meth is None:
            raise Refuse("expression %s (line %d)" % (type(e).__name__, getattr(e, "lineno", 0)))
        return meth(e, env, sc)

    def e_Constant(self, e, env, sc):
        v = e.value
        if isinstance(v, bool) or v is None or isinstance(v, (str, bytes, complex)):
            raise Refuse("constant %r" % (v,))
        if isinstance(v, int):
            return Val("(%d : Int)" % v, I, lit=v)
        if isinstance(v, float):
            return self.float_literal(e)
        raise Refuse("constant %r" % (v,))

    def global_name(self, name):
        """what a module-level name denotes: ('math', attr) | ('op', 'mul') | ('reduce',) | ('func', FunctionDef) | None"""
        return self.m.globals.get(name)

    def e_Name(self, e, env, sc):
        b = env.get(e.id)
        if b is LEAKED:
            raise Refuse("use of the loop variable %s after its loop" % e.id)
        if b is not None:
            if isinstance(b, Macro):
                raise Refuse("function %s used as a value" % e.id)
            return b
        g = self.global_name(e.id)
        if g == ("math", "pi"):
            return Val("(RealLike.pi : α)", F)
        if g == ("math", "e"):
            return Val("(RealLike.exp (RealLike.ofNat 1) : α)", F)
        raise Refuse("name %s (line %d)" % (e.id, e.lineno))

    def e_Attribute(self, e, env, sc):
        if isinstance(e.value, ast.Name) and env.get(e.value.id) is None and self.global_name(e.value.id) == ("module", "math"):
            if e.attr == "pi":
                return Val("(RealLike.pi : α)", F)
            if e.attr == "e":
                return Val("(RealLike.exp (RealLike.ofNat 1) : α)", F)
        raise Refuse("attribute .%s (line %d)" % (e.attr, e.lineno))

    def e_UnaryOp(self, e, env, sc):
        if isinstance(e.op, ast.USub):
            v = self.expr(e.operand, env, sc)
            if v.ty == I:
                if v.lit is not None:
                    return Val("(%d : Int)" % (-v.lit), I, lit=-v.lit)
                return Val("(-%s)" % v.term, I)
            if v.ty == F:
                return Val("(-%s)" % v.term, F)
            raise Refuse("unary minus on %r" % (v.ty,))
        if isinstance(e.op, ast.Not):
            v = self.expr(e.operand, env, sc)
            if v.ty != B:
                raise Refuse("not on a non-condition")
            return Val("(¬ %s)" % v.term, B)
        raise Refuse("unary operator %s" % type(e.op).__name__)

    def e_BinOp(self, e, env, sc):
        op = e.op
        a = self.expr(e.left, env, sc)
        b = self.expr(e.right, env, sc)
        if isinstance(op, (ast.Add, ast.Sub, ast.Mult)):
            if isinstance(op, ast.Add) and a.ty[0] == "L" and b.ty == a.ty:
                return Val("(%s ++ %s)" % (a.term, b.term), a.ty)
            if a.ty not in (F, I) or b.ty not in (F, I):
                raise Refuse("arithmetic on %r, %r (line %d)" % (a.ty, b.ty, e.lineno))
            a, b = self.unify(a, b)
            sym = {ast.Add: "+", ast.Sub: "-", ast.Mult: "*"}[type(op)]
            return Val("(%s %s %s)" % (a.term, sym, b.term), a.ty)
        if isinstance(op, ast.Div):
            if a.ty not in (F, I) or b.ty not in (F, I):
                raise Refuse("division on %r, %r" % (a.ty, b.ty))
            if b.ty == I and b.lit is not None and b.lit != 0:
                b = self.toF(b)             # a non-zero int literal cannot raise
            if b.ty == I:
                d = self.bind(sc, "Gen.nz %s" % b.term, I, "d")
                if a.ty == I:
                    return Val("(Gen.idiv %s %s : α)" % (a.term, d.term), F)
                return Val("(%s / (Gen.ofInt %s : α))" % (a.term, d.term), F)
            a = self.toF(a)
            return Val("(%s / %s)" % (a.term, b.term), F)
        if isinstance(op, (ast.FloorDiv, ast.Mod)):
            if a.ty != I or b.ty != I:
                raise Refuse("// or % on non-ints")
            d = self.bind(sc, "Gen.nz %s" % b.term, I, "d")
            f = "Int.fdiv" if isinstance(op, ast.FloorDiv) else "Int.fmod"
            return Val("(%s %s %s)" % (f, a.term, d.term), I)
        if isinstance(op, ast.Pow):
            if b.ty == I and b.lit is not None and b.lit >= 0:
                if a.ty == F:
                    return Val("(Gen.ipow %s %d)" % (a.term, b.lit), F)
                if a.ty == I:
                    return Val("(%s ^ %d)" % (a.term, b.lit), I)
            if b.ty == F and a.ty in (F, I) and (a.ty == F or a.lit is not None):
                return Val("(RealLike.pow %s %s)" % (self.toF(a).term, b.term), F)
            raise Refuse("power %r ** %r (line %d)" % (a.ty, b.ty, e.lineno))
        raise Refuse("operator %s" % type(op).__name__)

    def e_Compare(self, e, env, sc):
        if len(e.ops) != 1:
            raise Refuse("chained comparison")
        a = self.expr(e.left, env, sc)
        b = self.expr(e.comparators[0], env, sc)
        op = e.ops[0]
        if a.ty not in (F, I) or b.ty not in (F, I):
            raise Refuse("comparison of %r, %r" % (a.ty, b.ty))
        a, b = self.unify(a, b)
        if isinstance(op, ast.Lt):
            return Val("(%s < %s)" % (a.term, b.term), B)
        if isinstance(op, ast.Gt):
            return Val("(%s < %s)" % (b.term, a.term), B)
        if isinstance(op, ast.LtE):
            return Val("(%s ≤ %s)" % (a.term, b.term), B)
        if isinstance(op, ast.GtE):
            return Val("(%s ≤ %s)" % (b.term, a.term), B)
        if isinstance(op, (ast.Eq, ast.NotEq)):
            if a.ty != I:
                raise Refuse("== on floats")
            return Val("(%s %s %s)" % (a.term, "=" if isinstance(op, ast.Eq) else "≠", b.term), B)
        raise Refuse("comparison %s" % type(op).__name__)

    def e_BoolOp(self, e, env, sc):
        parts = []
        for v in e.values:
            sub = Scope()
            x = self.expr(v, env, sub)
            if sub.entries:
                raise Refuse("and/or with an operand that needs evaluation order")
            if x.ty != B:
                raise Refuse("and/or on non-conditions")
            parts.append(x.term)
        sym = " ∧ " if isinstance(e.op, ast.And) else " ∨ "
        return Val("(%s)" % sym.join(parts), B)

    def e_IfExp(self, e, env, sc):
        c = self.expr(e.test, env, sc)
        if c.ty != B:
            raise Refuse("condition is not a comparison")
        sa, sb = Scope(), Scope()
        a = self.expr(e.body, env, sa)
        b = self.expr(e.orelse, env, sb)
        a, b = self.unify(a, b)
        if not sa.entries and not sb.entries:
            return Val("(if %s then %s else %s)" % (c.term, a.term, b.term), a.ty, )
        ta = self.wrap(sa, "some %s" % a.term)
        tb = self.wrap(sb, "some %s" % b.term)
        return self.bind(sc, "(if %s then %s else %s)" % (c.term, ta, tb), a.ty)

    def e_Subscript(self, e, env, sc):
        v = self.expr(e.value, env, sc)
        if v.ty[0] != "L":
            raise Refuse("subscript of %r" % (v.ty,))
        s = e.slice
        if isinstance(s, ast.Slice):
            if s.step is not None:
                raise Refuse("slice with a step")
            lo = self.expr(s.lower, env, sc) if s.lower is not None else None
            hi = self.expr(s.upper, env, sc) if s.upper is not None else None
            for x in (lo, hi):
                if x is not None and x.ty != I:
                    raise Refuse("slice bound of type %r" % (x.ty,))
            if hi is None and lo is not None and lo.lit is not None and lo.lit >= 0:
                return Val("(List.drop %d %s)" % (lo.lit, v.term), v.ty)
            if lo is None and hi is not None and hi.lit is not None and hi.lit >= 0:
                return Val("(List.take %d %s)" % (hi.lit, v.term), v.ty)
            if lo is None and hi is not None and hi.lit == -1:
                return Val("(List.dropLast %s)" % v.term, v.ty)
            if lo is None and hi is None:
                return v
            lt = "(some %s)" % lo.term if lo is not None else "none"
            ht = "(some %s)" % hi.term if hi is not None else "none"
            return Val("(Gen.slice %s %s %s)" % (v.term, lt, ht), v.ty)
        i = self.expr(s, env, sc)
        if i.ty != I:
            raise Refuse("index of type %r" % (i.ty,))
        if i.lit is not None and i.lit >= 0:
            return self.bind(sc, "%s[%d]?" % (v.term, i.lit), v.ty[1])
        return self.bind(sc, "Gen.index %s %s" % (v.term, i.term), v.ty[1])

    def seq_display(self, elts, env, sc):
        if not elts:
            raise Refuse("empty list / tuple display")
        vs = [self.expr(x, env, sc) for x in elts]
        if any(isinstance(x, ast.Starred) for x in elts):
            raise Refuse("starred element")
        tys = {v.ty for v in vs}
        if tys == {F, I} or tys == {F}:
            vs = [self.toF(v) for v in vs]
        elif len(tys) != 1:
            raise Refuse("display of mixed types")
        return Val("[%s]" % ", ".join(v.term for v in vs), L(vs[0].ty))

    def e_List(self, e, env, sc):
        return self.seq_display(e.elts, env, sc)

    def e_Tuple(self, e, env, sc):
        return self.seq_display(e.elts, env, sc)

    def e_Lambda(self, e, env, sc):
        raise Refuse("lambda used as a value (line %d)" % e.lineno)

    def params_of(self, args):
        if args.vararg or args.kwarg or args.kwonlyargs or args.posonlyargs:
            raise Refuse("*args / keyword-only parameters")
        return [a.arg for a in args.args]

    def comprehension(self, e, env, sc):
        if len(e.generators) != 1:
            raise Refuse("nested comprehension")
        g = e.generators[0]
        if g.ifs or g.is_async:
            raise Refuse("comprehension with if")
        src = self.expr(g.iter, env, sc)
        if src.ty[0] != "L":
            raise Refuse("iteration over %r" % (src.ty,))
        p = self.fresh("p")
        inner = Env(env)
        self.bind_target(g.target, Val(p, src.ty[1]), inner)
        sub = Scope()
        body = self.expr(e.elt, inner, sub)
        if body.ty == B or isinstance(body, Macro):
            raise Refuse("comprehension of conditions")
        bt = "fun (%s : %s) => " % (p, lean_type(src.ty[1]))
        if not sub.entries:
            return Val("(List.map (%s%s) %s)" % (bt, body.term, src.term), L(body.ty))
        if not sub.partial():
            return Val("(List.map (%s%s) %s)" % (bt, self.wrap_pure(sub, body.term), src.term), L(body.ty))
        return self.bind(sc, "List.mapM (%s%s) %s" % (bt, self.wrap(sub, "some %s" % body.term), src.term), L(body.ty), "l")

    e_GeneratorExp = comprehension
    e_ListComp = comprehension

    def bind_target(self, target, val, env):
        if isinstance(target, ast.Name):
            env.set(target.id, val)
            return
        if isinstance(target, ast.Tuple) and len(target.elts) == 2 and val.ty[0] == "P" \
                and all(isinstance(x, ast.Name) for x in target.elts):
            env.set(target.elts[0].id, Val("%s.1" % val.term, val.ty[1]))
            env.set(target.elts[1].id, Val("%s.2" % val.term, val.ty[2]))
            return
        raise Refuse("loop target (line %d)" % target.lineno)

    def binary_fun(self, f, env, elem_ty):
        """a 2-argument function over `elem_ty` as a Lean term, or 'mul'"""
        if isinstance(f, ast.Name) and env.get(f.id) is None and self.global_name(f.id) == ("op", "mul"):
            return "mul"
        lam = None
        if isinstance(f, ast.Lambda):
            lam = Macro(self.params_of(f.args), f.body, env, "<lambda>", True)
        elif isinstance(f, ast.Name) and isinstance(env.get(f.id), Macro):
            lam = env.get(f.id)
        if lam is None or len(lam.params) != 2 or not lam.is_expr:
            raise Refuse("reduce with an unknown function")
        lb = lam.body
        if isinstance(lb, ast.BinOp) and isinstance(lb.op, ast.Mult) and isinstance(lb.left, ast.Name) \
                and isinstance(lb.right, ast.Name) and [lb.left.id, lb.right.id] == lam.params:
            return "mul"            # lambda x, y: x * y  is operator.mul
        x, y = self.fresh("a"), self.fresh("b")
        inner = Env(lam.env)
        inner.set(lam.params[0], Val(x, elem_ty))
        inner.set(lam.params[1], Val(y, elem_ty))
        sub = Scope()
        body = self.expr(lam.body, inner, sub)
        if sub.entries or body.ty != elem_ty:
            raise Refuse("reduce function that can raise or changes type")
        return "(fun (%s %s : %s) => %s)" % (x, y, lean_type(elem_ty), body.term)

    def e_Call(self, e, env, sc):
        if e.keywords:
            raise Refuse("keyword arguments (line %d)" % e.lineno)
        if any(isinstance(a, ast.Starred) for a in e.args):
            raise Refuse("starred argument")
        f = e.func
        fname = None
        if isinstance(f, ast.Name):
            b = env.get(f.id)
            if isinstance(b, Macro):
                return self.inline(b, e.args, env, sc)
            if b is not None:
                raise Refuse("call of the value %s" % f.id)
            g = self.global_name(f.id)
            if g is None:
                fname = ("builtin", f.id)
            else:
                fname = g
        elif isinstance(f, ast.Attribute) and isinstance(f.value, ast.Name) and env.get(f.value.id) is None \
                and self.global_name(f.value.id) == ("module", "math"):
            fname = ("math", f.attr)
        else:
            raise Refuse("call of %s (line %d)" % (ast.dump(f)[:40], e.lineno))
        n = len(e.args)
        if fname[0] == "math":
            if fname[1] in MATH_FUN and n == 1:
                a = self.toF(self.expr(e.args[0], env, sc))
                return Val("(%s %s)" % (MATH_FUN[fname[1]], a.term), F)
            raise Refuse("math.%s" % fname[1])
        if fname[0] == "func":
            fd = fname[1]
            if fd.name in self.inline_stack or fd.name == self.fn.name:
                raise Refuse("recursion through %s" % fd.name)
            if fd.decorator_list:
                raise Refuse("call of the decorated function %s" % fd.name)
            mac = Macro(self.params_of(fd.args), fd.body, Env(), fd.name, False)
            return self.inline(mac, e.args, env, sc)
        if fname == ("reduce",):
            if n not in (2, 3):
                raise Refuse("reduce arity")
            seq = self.expr(e.args[1], env, sc)
            if seq.ty[0] != "L" or seq.ty[1] not in (F, I):
                raise Refuse("reduce over %r" % (seq.ty,))
            et = seq.ty[1]
            if n == 3:
                init = self.expr(e.args[2], env, sc)
                if init.ty == I and et == F:
                    init = self.toF(init)
                if init.ty == F and et == I:
                    raise Refuse("reduce of ints from a float")
                fn = self.binary_fun(e.args[0], env, et)
                if fn == "mul":
                    if et == F:
                        return Val("(RealLike.prod %s %s)" % (init.term, seq.term), F)
                    return Val("(List.foldl (fun (a b : Int) => a * b) %s %s)" % (init.term, seq.term), I)
                return Val("(List.foldl %s %s %s)" % (fn, init.term, seq.term), et)
            fn = self.binary_fun(e.args[0], env, et)
            if fn == "mul":
                fn = "(fun (a b : %s) => a * b)" % lean_type(et)
            return self.bind(sc, "Gen.reduce1 %s %s" % (fn, seq.term), et)
        if fname[0] == "builtin":
            name = fname[1]
            if name == "len" and n == 1:
                a = self.expr(e.args[0], env, sc)
                if a.ty[0] != "L":
                    raise Refuse("len of %r" % (a.ty,))
                return Val("(%s.length : Int)" % a.term, I)
            if name == "abs" and n == 1:
                a = self.expr(e.args[0], env, sc)
                if a.ty == F:
                    return Val("(RealLike.abs %s)" % a.term, F)
                if a.ty == I:
                    return Val("(Int.natAbs %s : Int)" % a.term, I)
                raise Refuse("abs of %r" % (a.ty,))
            if name == "float" and n == 1:
                return self.toF(self.expr(e.args[0], env, sc))
            if name == "sum" and n == 1:
                a = self.expr(e.args[0], env, sc)
                if a.ty == L(F):
                    return Val("(RealLike.sum %s)" % a.term, F)
                if a.ty == L(I):
                    return Val("(Gen.isum %s)" % a.term, I)
                raise Refuse("sum of %r" % (a.ty,))
            if name == "zip" and n == 2:
                a = self.expr(e.args[0], env, sc)
                b = self.expr(e.args[1], env, sc)
                if a.ty[0] != "L" or b.ty[0] != "L":
                    raise Refuse("zip of non-lists")
                return Val("(List.zip %s %s)" % (a.term, b.term), L(P(a.ty[1], b.ty[1])))
            if name == "enumerate" and n == 1:
                a = self.expr(e.args[0], env, sc)
                if a.ty[0] != "L":
                    raise Refuse("enumerate of %r" % (a.ty,))
                return Val("(Gen.enumerate %s)" % a.term, L(P(I, a.ty[1])))
            if name == "range" and n in (1, 2, 3):
                args = [self.expr(a, env, sc) for a in e.args]
                if any(a.ty != I for a in args):
                    raise Refuse("range of non-ints")
                if n == 1:
                    return Val("(Gen.range (0 : Int) %s)" % args[0].term, L(I))
                if n == 2:
                    return Val("(Gen.range %s %s)" % (args[0].term, args[1].term), L(I))
                if args[2].lit == -1:
                    return Val("(Gen.rangeDown %s %s)" % (args[0].term, args[1].term), L(I))
                if args[2].lit == 1:
                    return Val("(Gen.range %s %s)" % (args[0].term, args[1].term), L(I))
                raise Refuse("range with a step other than 1 / -1")
            if name == "reversed" and n == 1:
                a = self.expr(e.args[0], env, sc)
                if a.ty[0] != "L":
                    raise Refuse("reversed of %r" % (a.ty,))
                return Val("(List.reverse %s)" % a.term, a.ty)
            if name in ("list", "tuple") and n == 1:
                a = self.expr(e.args[0], env, sc)
                if a.ty[0] != "L":
                    raise Refuse("%s of %r" % (name, a.ty))
                return a
            raise Refuse("call of %s/%d (line %d)" % (name, n, e.lineno))
        raise Refuse("call of %r" % (fname,))

    # -- inlining --------------------------------------------------------------------------
    def inline(self, mac, args, env, sc):
        if len(args) != len(mac.params):
            raise Refuse("call of %s with %d arguments" % (mac.name, len(args)))
        if mac.name in self.inline_stack:
            raise Refuse("recursion through %s" % mac.name)
        vals = [self.expr(a, env, sc) for a in args]
        self.inline_stack.append(mac.name)
        self.inline_depth += 1
        try:
            inner = Env(mac.env)
            for p, v in zip(mac.params, vals):
                if isinstance(v, Macro):
                    raise Refuse("function passed as an argument")
                if v.term.isidentifier() or v.lit is not None:
                    inner.set(p, v)
                else:
                    n = self.fresh(self.lname(p) + "_")
                    sc.entries.append(("let", n, v.term))
                    inner.set(p, Val(n, v.ty))
            if mac.is_expr:
                return self.expr(mac.body, inner, sc)
            # straight-line statements ending in one `return e`, evaluated into the caller's scope
            body = list(mac.body)
            if body and isinstance(body[0], ast.Expr) and isinstance(body[0].value, ast.Constant) \
                    and isinstance(body[0].value.value, str):
                body = body[1:]
            if not body or not isinstance(body[-1], ast.Return) or body[-1].value is None:
                raise Refuse("inlined function %s does not end in `return e`" % mac.name)
            for st in body[:-1]:
                if not self.simple_stmt(st, inner, sc):
                    raise Refuse("inlined function %s: statement %s" % (mac.name, type(st).__name__))
            return self.expr(body[-1].value, inner, sc)
        finally:
            self.inline_depth -= 1
            self.inline_stack.pop()

    # -- rendering of scopes ---------------------------------------------------------------
    def wrap(self, sc, final):
        """`final` : Option _ , evaluated after the scope's entries"""
        out = final
        for kind, n, t in reversed(sc.entries):
            if kind == "let":
                out = "(let %s := %s; %s)" % (n, t, out)
            else:
                out = "(Option.bind (%s) fun %s => %s)" % (t, n, out)
        return out

    def wrap_pure(self, sc, final):
        out = final
        for kind, n, t in reversed(sc.entries):
            assert kind == "let"
            out = "(let %s := %s; %s)" % (n, t, out)
        return out

    # -- statements ------------------------------------------------------------------------
    def assign(self, name, val, env, sc):
        if isinstance(val, Macro):
            env.set(name, val)
            return
        if val.ty == B:
            raise Refuse("condition stored in a variable")
        n = self.lname(name) if self.inline_depth == 0 else self.fresh(self.lname(name) + "_")
        sc.entries.append(("let", n, val.term))
        env.set(name, Val(n, val.ty))

    def simple_stmt(self, st, env, sc):
        """statements that only extend the scope (no control flow leaves them); False = not one of them"""
        if isinstance(st, ast.Expr) and isinstance(st.value, ast.Constant) and isinstance(st.value.value, str):
            return True
        if isinstance(st, ast.Assign) and len(st.targets) == 1 and isinstance(st.targets[0], ast.Tuple) \
                and isinstance(st.value, ast.Tuple) and len(st.value.elts) == len(st.targets[0].elts) \
                and all(isinstance(t, ast.Name) for t in st.targets[0].elts) \
                and not any(isinstance(v, (ast.Starred, ast.Lambda)) for v in st.value.elts):
            # a, b = e1, e2 : the right-hand sides are evaluated first, then bound left to right
            vals = [self.expr(v, env, sc) for v in st.value.elts]
            tmps = []
            for t, v in zip(st.targets[0].elts, vals):
                if isinstance(v, Macro) or v.ty == B:
                    raise Refuse("tuple assignment of a function / condition")
                n = self.fresh("u")
                sc.entries.append(("let", n, v.term))
                tmps.append(Val(n, v.ty))
            for t, v in zip(st.targets[0].elts, tmps):
                self.assign(t.id, v, env, sc)
            return True
        if isinstance(st, ast.Assign):
            if len(st.targets) != 1 or not isinstance(st.targets[0], ast.Name):
                raise Refuse("assignment target (line %d)" % st.lineno)
            name = st.targets[0].id
            if isinstance(st.value, ast.Lambda):
                self.assign(name, Macro(self.params_of(st.value.args), st.value.body, env, name, True), env, sc)
            else:
                self.assign(name, self.expr(st.value, env, sc), env, sc)
            return True
        if isinstance(st, ast.AugAssign):
            if not isinstance(st.target, ast.Name):
                raise Refuse("augmented assignment target")
            fake = ast.BinOp(left=ast.Name(id=st.target.id, ctx=ast.Load(), lineno=st.lineno, col_offset=0), op=st.op,
                             right=st.value, lineno=st.lineno, col_offset=0)
            self.assign(st.target.id, self.expr(fake, env, sc), env, sc)
            return True
        if isinstance(st, ast.FunctionDef):
            if st.decorator_list:
                raise Refuse("decorated nested function")
            self.assign(st.name, Macro(self.params_of(st.args), st.body, env, st.name, False), env, sc)
            return True
        if isinstance(st, ast.Expr) and isinstance(st.value, ast.Call) and isinstance(st.value.func, ast.Attribute) \
                and isinstance(st.value.func.value, ast.Name) and st.value.func.attr in ("append", "extend") \
                and len(st.value.args) == 1 and not st.value.keywords:
            name = st.value.func.value.id
            lst = env.get(name)
            if not isinstance(lst, Val) or lst.ty[0] != "L":
                raise Refuse("%s.%s on a non-list" % (name, st.value.func.attr))
            a = self.expr(st.value.args[0], env, sc)
            if st.value.func.attr == "append":
                if a.ty == I and lst.ty[1] == F:
                    a = self.toF(a)
                if a.ty != lst.ty[1]:
                    raise Refuse("append of %r to a list of %r" % (a.ty, lst.ty[1]))
                self.assign(name, Val("(%s ++ [%s])" % (lst.term, a.term), lst.ty), env, sc)
            else:
                if a.ty != lst.ty:
                    raise Refuse("extend of %r by %r" % (lst.ty, a.ty))
                self.assign(name, Val("(%s ++ %s)" % (lst.term, a.term), lst.ty), env, sc)
            return True
        if isinstance(st, ast.For):
            self.for_loop(st, env, sc)
            return True
        return False

    def assigned_names(self, stmts):
        out, appended = set(), set()
        for st in stmts:
            for node in ast.walk(st):
                if isinstance(node, (ast.Assign, ast.AugAssign)):
                    ts = node.targets if isinstance(node, ast.Assign) else [node.target]
                    for t in ts:
                        if not isinstance(t, ast.Name):
                            raise Refuse("assignment target inside a loop")
                        out.add(t.id)
                elif isinstance(node, ast.Call) and isinstance(node.func, ast.Attribute) and isinstance(node.func.value, ast.Name) \
                        and node.func.attr in ("append", "extend"):
                    appended.add(node.func.value.id)
                elif isinstance(node, (ast.For, ast.While, ast.Return, ast.Break, ast.FunctionDef, ast.Try, ast.With)):
                    raise Refuse("%s inside a loop body" % type(node).__name__)
        return out, appended

    def for_loop(self, st, env, sc):
        if st.orelse:
            raise Refuse("for/else")
        assigned, appended = self.assigned_names(st.body)
        src = self.expr(st.iter, env, sc)
        if src.ty[0] != "L":
            raise Refuse("iteration over %r" % (src.ty,))
        p = self.fresh("p")
        inner = Env(env)
        self.bind_target(st.target, Val(p, src.ty[1]), inner)
        for tn in [x.id for x in ast.walk(st.target) if isinstance(x, ast.Name)]:
            if env.get(tn) is not None:
                raise Refuse("loop variable %s re-uses the name of a variable" % tn)
            env.set(tn, LEAKED)        # Python leaves the loop variable bound after the loop: any later use is refused
        outer_assigned = [n for n in sorted(assigned) if isinstance(env.get(n), Val)]
        if not appended:
            # accumulation
            if len(outer_assigned) != 1 or len(assigned) != 1:
                raise Refuse("loop that assigns %s (exactly one accumulator is supported)" % sorted(assigned))
            acc = outer_assigned[0]
            cur = env.get(acc)
            a = self.fresh("acc")
            inner.set(acc, Val(a, cur.ty))
            body = self.acc_block(list(st.body), inner, acc, cur.ty)
            term = "(List.foldl (fun (%s : %s) (%s : %s) => %s) %s %s)" % (a, lean_type(cur.ty), p, lean_type(src.ty[1]), body,
                                                                          cur.term, src.term)
            self.assign(acc, Val(term, cur.ty), env, sc)
            return
        if len(appended) != 1 or outer_assigned:
            raise Refuse("loop that appends to %s and assigns %s" % (sorted(appended), outer_assigned))
        name = list(appended)[0]
        lst = env.get(name)
        if not isinstance(lst, Val) or lst.ty[0] != "L":
            raise Refuse("append to a non-list in a loop")
        # the body may use the list only as the receiver of `.append` (an element must not depend on earlier ones)
        receivers = set()
        for node in ast.walk(ast.Module(body=st.body, type_ignores=[])):
            if isinstance(node, ast.Call) and isinstance(node.func, ast.Attribute) and node.func.attr == "append" \
                    and isinstance(node.func.value, ast.Name) and node.func.value.id == name:
                receivers.add(id(node.func.value))
        for node in ast.walk(ast.Module(body=st.body, type_ignores=[])):
            if isinstance(node, ast.Name) and node.id == name and id(node) not in receivers:
                raise Refuse("loop body reads the list it builds")
        tree, partial = self.build_block(list(st.body), inner, name, lst.ty[1])
        bt = "fun (%s : %s) => " % (p, lean_type(src.ty[1]))
        if partial:
            l = self.bind(sc, "List.mapM (%s%s) %s" % (bt, tree, src.term), lst.ty, "l")
            self.assign(name, Val("(%s ++ %s)" % (lst.term, l.term), lst.ty), env, sc)
        else:
            self.assign(name, Val("(%s ++ List.map (%s%s) %s)" % (lst.term, bt, tree, src.term), lst.ty), env, sc)

    def acc_block(self, stmts, env, acc, ty):
        """value of the accumulator after the loop body (pure)"""
        sub = Scope()
        for k, st in enumerate(stmts):
            if isinstance(st, ast.If):
                c = self.expr(st.test, env, sub)
                if c.ty != B:
                    raise Refuse("condition is not a comparison")
                rest = stmts[k + 1:]
                a = self.acc_block(list(st.body) + rest, Env(env), acc, ty)
                b = self.acc_block(list(st.orelse) + rest, Env(env), acc, ty)
                if sub.partial():
                    raise Refuse("accumulation loop body that can raise")
                return self.wrap_pure(sub, "(if %s then %s else %s)" % (c.term, a, b))
            if isinstance(st, ast.Continue):
                break
            if isinstance(st, (ast.Assign, ast.AugAssign)):
                self.simple_stmt(st, env, sub)
                continue
            raise Refuse("statement %s in an accumulation loop" % type(st).__name__)
        if sub.partial():
            raise Refuse("accumulation loop body that can raise")
        v = env.get(acc)
        if v.ty != ty:
            raise Refuse("accumulator changes type")
        return self.wrap_pure(sub, v.term)

    def build_block(self, stmts, env, lst, elem_ty, appended=None):
        """(term, partial): the element appended by one iteration — exactly one append on every path.
        partial -> term : Option elem, else term : elem"""
        # first pass: try pure, second: partial; implemented by building a tree and rendering it twice
        tree = self.build_tree(stmts, env, lst, elem_ty, None)
        partial = self.tree_partial(tree)
        return self.render_tree(tree, partial), partial

    def build_tree(self, stmts, env, lst, elem_ty, got):
        sub = Scope()
        for k, st in enumerate(stmts):
            if isinstance(st, ast.If):
                c = self.expr(st.test, env, sub)
                if c.ty != B:
                    raise Refuse("condition is not a comparison")
                rest = stmts[k + 1:]
                a = self.build_tree(list(st.body) + rest, Env(env), lst, elem_ty, got)
                b = self.build_tree(list(st.orelse) + rest, Env(env), lst, elem_ty, got)
                return ("if", sub, c.term, a, b)
            if isinstance(st, ast.Continue):
                break
            if isinstance(st, ast.Expr) and isinstance(st.value, ast.Call) and isinstance(st.value.func, ast.Attribute) \
                    and isinstance(st.value.func.value, ast.Name) and st.value.func.value.id == lst \
                    and st.value.func.attr == "append" and len(st.value.args) == 1:
                if got is not None:
                    raise Refuse("two appends on one path of a loop body")
                v = self.expr(st.value.args[0], env, sub)
                if v.ty == I and elem_ty == F:
                    v = self.toF(v)
                if v.ty != elem_ty:
                    raise Refuse("append of %r to a list of %r" % (v.ty, elem_ty))
                got = v.term
                continue
            if isinstance(st, ast.Assign):
                self.simple_stmt(st, env, sub)
                continue
            raise Refuse("statement %s in a list-building loop" % type(st).__name__)
        if got is None:
            raise Refuse("a path of the loop body appends nothing")
        return ("leaf", sub, got)

    def tree_partial(self, t):
        if t[0] == "leaf":
            return t[1].partial()
        return t[1].partial() or self.tree_partial(t[3]) or self.tree_partial(t[4])

    def render_tree(self, t, partial):
        if t[0] == "leaf":
            return self.wrap(t[1], "some %s" % t[2]) if partial else self.wrap_pure(t[1], t[2])
        inner = "(if %s then %s else %s)" % (t[2], self.render_tree(t[3], partial), self.render_tree(t[4], partial))
        return self.wrap(t[1], inner) if partial else self.wrap_pure(t[1], inner)

    def block(self, stmts, env):
        """Lean term of type Option R for a statement list that ends in `return` on every path"""
        sc = Scope()
        for k, st in enumerate(stmts):
            if self.simple_stmt(st, env, sc):
                continue
            if isinstance(st, ast.Return):
                if st.value is None:
                    raise Refuse("bare return")
                v = self.expr(st.value, env, sc)
                if v.ty == B:
                    raise Refuse("returns a condition")
                if self.ret_ty is None:
                    self.ret_ty = v.ty
                elif self.ret_ty != v.ty:
                    if {self.ret_ty, v.ty} == {F, I}:
                        raise Refuse("returns int on one path and float on another")
                    raise Refuse("returns of different types")
                return self.wrap(sc, "some %s" % v.term)
            if isinstance(st, ast.If):
                c = self.expr(st.test, env, sc)
                if c.ty != B:
                    raise Refuse("condition is not a comparison")
                rest = stmts[k + 1:]
                a = self.block(list(st.body) + rest, Env(env))
                b = self.block(list(st.orelse) + rest, Env(env))
                return self.wrap(sc, "(if %s then %s else %s)" % (c.term, a, b))
            raise Refuse("statement %s (line %d)" % (type(st).__name__, st.lineno))
        raise Refuse("a path reaches the end of the function without `return`")

    def translate(self, lean_name):
        fn = self.fn
        if fn.decorator_list:
            raise Refuse("decorated function")
        params = self.params_of(fn.args)
        env = Env()
        binders = []
        for p in params:
            if p not in self.sig:
                raise Refuse("no declared type for parameter %s" % p)
            n = self.lname(p)
            env.set(p, Val(n, self.sig[p]))
            binders.append("(%s : %s)" % (n, lean_type(self.sig[p])))
        body = self.block(list(fn.body), env)
        defaults = []
        nd = len(fn.args.defaults)
        for p, d in zip(params[len(params) - nd:], fn.args.defaults):
            sc = Scope()
            v = self.expr(d, Env(), sc)
            if sc.entries:
                raise Refuse("default value that needs evaluation")
            if self.sig[p] == F:
                v = self.toF(v)
            if v.ty != self.sig[p]:
                raise Refuse("default of %s has type %r" % (p, v.ty))
            defaults.append("def %s_dflt_%s : %s := %s" % (lean_name, p, lean_type(self.sig[p]), v.term))
        text = "def %s %s : Option %s :=\n  %s" % (lean_name, " ".join(binders), lean_type_atom(self.ret_ty), body)
        return "\n".join([text] + defaults), self.ret_ty


class Module:
    """one Python source file: its text, AST, and what its module-level names denote"""
    def __init__(self, path):
        self.path = path
        self.src = open(path).read()
        self.tree = ast.parse(self.src)
        self.globals = {}
        self.functions = {}
        self.public = []
        for node in self.tree.body:
            if isinstance(node, ast.ImportFrom) and node.level == 0:
                for a in node.names:
                    nm = a.asname or a.name
                    if node.module == "math":
                        self.globals[nm] = ("math", a.name)
                    elif node.module == "operator" and a.name == "mul":
                        self.globals[nm] = ("op", "mul")
                    elif node.module == "functools" and a.name == "reduce":
                        self.globals[nm] = ("reduce",)
                    else:
                        self.globals[nm] = ("other", node.module, a.name)
            elif isinstance(node, ast.Import):
                for a in node.names:
                    nm = a.asname or a.name.split(".")[0]
                    self.globals[nm] = ("module", a.name) if a.name == "math" else ("other", a.name, None)
            elif isinstance(node, ast.FunctionDef):
                self.globals[node.name] = ("func", node)
                self.functions[node.name] = node
                if not node.name.startswith("_"):
                    self.public.append(node.name)
            elif isinstance(node, ast.ClassDef):
                self.globals[node.name] = ("class", node)
                if not node.name.startswith("_"):
                    self.public.append(node.name)
            elif isinstance(node, (ast.Assign, ast.AugAssign, ast.AnnAssign)):
                ts = node.targets if isinstance(node, ast.Assign) else [node.target]
                for t in ts:
                    for x in ast.walk(t):
                        if isinstance(x, ast.Name):
                            self.globals[x.id] = ("other", "assigned", None)


def translate_function(module, name, sig, lean_name):
    """-> (lean text, result type) ; raises Refuse"""
    fn = module.functions.get(name)
    if fn is None:
        raise Refuse("no module-level function %s" % name)
    return FunctionTranslator(module, fn, sig).translate(lean_name)


def lean_result_type(t):
    return lean_type(t)
