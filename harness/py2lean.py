"""py2lean — translator from a small, explicitly delimited Python sub-language to Lean 4 definitions.

Used by the C20 check as the TRANSLATOR TIE: the bodies of the benchmark functions are re-read from /repo's current
source on every run, rendered as Lean definitions `Gen.<f>` (polymorphic in `RealLike α`, Core/Scalar.lean) and a
committed theorem `Gen.<f> (α := ℝ) … = Bench.<f> …` is re-checked by the Lean kernel.

THIS DOCSTRING IS THE TRANSLATOR'S TRUSTED BASE: the sub-language and the rendering rules.  Everything that is not
listed is REFUSED (`Refuse`), never guessed.  The Lean helpers the rendering uses are lean/DeapModel/Core/GenPrelude.lean.

Value types        float -> α            int -> Int           bool (only as a condition) -> decidable Prop
                   list / tuple / generator / zip / range / enumerate -> List      pair bound by `for a, b in` -> (A × B)
                   an exception (IndexError, ZeroDivisionError of an int divisor, TypeError of reduce on an empty
                   sequence) -> `none`: every translated function has result type `Option R`.
Parameter types    come from the caller-supplied signature table (`individual: list of float`, `obj: int`, ...); that
                   table is an assumption of the tie, like the ASSUMPTIONS of the check.
Result             `return a, b` and `return [..]`/a list variable -> `some [a, b]` (tuple and list are both a Lean list);
                   `return x` with a float / int x -> `some x`.  All `return`s of a function must have one type.

Expressions
  literals         float literal: the SOURCE TEXT of the literal is read as an exact decimal with decimal.Decimal
                   (digits·10^exp, not repr, not as_integer_ratio), checked to round to the parsed constant, and rendered
                   `RealLike.ofNat n` when integral, else `RealLike.ofRatio digits 10^k` (unreduced, both < 2^53 so that the
                   Float instance computes the correctly rounded literal).  int literal -> `(n : Int)`; where an int meets a
                   float it is coerced: literal n >= 0 -> `RealLike.ofNat n`, other -> `Gen.ofInt e`.
  names            parameters, locals, `pi` -> `RealLike.pi`, `e` -> `RealLike.exp (RealLike.ofNat 1)`, resolved through the
                   module's `from math import …` / `import math` statements (aliases followed; a local shadows).
  + - * unary -    same type on both sides after coercion (int op int stays Int); list + list -> `++`.
  /                true division, result float.  int-typed divisor d (other than a non-zero literal, which is coerced): guarded, `Gen.nz d` (= `none` when d = 0), then
                   `Gen.idiv a d` (int / int) or `a / Gen.ofInt d`.  float-typed divisor: RealLike `/`.
                   NOT RENDERED: ZeroDivisionError / OverflowError / ValueError / complex results of float operations
                   (float division by 0.0, sqrt or fractional power of a negative float, exp overflow).
  // %             int only, guarded by `Gen.nz`, `Int.fdiv` / `Int.fmod` (floor semantics).
  **               float ** literal natural n -> `Gen.ipow x n` (n-1 multiplications); float ** float-literal / float
                   expression, int-literal ** float expression -> `RealLike.pow`; int ** literal natural -> `^` on Int.
  comparisons      one operator; < > <= >= on floats/ints (`a > b` is rendered `b < a`), == != on ints only.
                   `and` / `or` / `not` of such conditions when no operand can raise.
  a if c else b    `if c then a else b`; a branch that can raise stays inside its branch.
  x[i]             literal i >= 0 -> `x[i]?`, other int -> `Gen.index x i` (negative counts from the end); `none` = IndexError.
                   (the same raising term met twice in one scope is bound once — all exceptions are the one `none`.)
  x[a:b]           step 1 only: `x[k:]` -> `List.drop k`, `x[:k]` -> `List.take k` (literal k >= 0), `x[:-1]` -> `List.dropLast`,
                   anything else -> `Gen.slice x lo hi` (CPython's bound adjustment).
  calls            sin cos sqrt exp log (math) -> RealLike.*; abs; len; float(int); sum(list of float) -> `RealLike.sum`
                   (left to right from 0), sum(list of int) -> `Gen.isum`; reduce(mul | lambda x, y: x * y | 2-argument
                   lambda, seq, init) -> `RealLike.prod init seq` / `List.foldl`; reduce(f, seq) -> `Gen.reduce1` (empty = none);
                   zip(a, b); enumerate(a); range(a) / range(a, b) / range(a, b, -1); reversed; list; tuple;
                   a call of a local `lambda` / nested `def` / function of the same module: INLINED (parameters become
                   `let`s, free variables are read at call time as Python does).
  comprehensions   generator expression / list comprehension with ONE `for`, no `if`: `List.map`, or `List.mapM` when the
                   element expression can raise.
  displays         `[a, b]`, `(a, b)`, `a,` -> Lean list (non-empty).
Statements         docstring; `v = e`; `a, b = e1, e2` (names only); `v op= e` (+ - *); `return e`; `if / elif / else` (the rest of the block is
                   duplicated into both branches); `lst.append(e)`, `lst.extend(seq)`;
                   `for t in seq:` in two shapes only —
                     accumulation: the body assigns exactly one already defined scalar variable and cannot raise
                                   -> `List.foldl`;
                     list building: the body appends to exactly one list (exactly once on every path), may bind fresh
                                   locals, use `if/else` and `continue` -> `lst ++ (seq.map …)` / `mapM`;
                   (a loop variable that re-uses a name, or is used after its loop, and a body that reads the list it
                   builds are refused);
                   nested `def` / `v = lambda …` -> inlined at the calls (a captured variable must not be re-assigned
                   after the definition unless the call reads the new value, which the live environment gives).
REFUSED, e.g.      try, with, global/nonlocal, *args/**kwargs, keyword arguments, attribute access other than `math.<name>`
                   (and `self.<declared field>` in a rendered method), string / bytes / None / complex values, `is`, `in`,
                   chained comparisons, comprehension `if`s and nested `for`s, slices with a step, any call not listed,
                   recursion, classes / decorators / `while` outside the shapes of ROUND 8 below.

RANDOMNESS         `random.random()` (the module `random`, `import random`) in STRAIGHT-LINE code of a function: the next draw
                   of an explicit TAPE (`Gen.popRandom`, exhausted = none), the way Core/Bench.lean `rand` consumes its
                   tape: the generated function takes the tape as its LAST argument and returns `(value, rest of the tape)`.
                   Inside loops / comprehensions / conditional expressions / inlined functions, and every other random.*
                   function: refused.

ROUND 8 (extensions; every rule above is unchanged, each of these renders something that was refused before)
  range(a, b, k)   literal k >= 2 -> `Gen.rangeStep a b k` (CPython's length (b - a + k - 1) // k, 0 when b <= a).
  and / or         with an operand that can raise: Python's short-circuit order made explicit.  The first operand is
                   evaluated in the enclosing scope; the others inside `if c1 then (… some (decide c2)) else some false`
                   (`or`: `if c1 then some true else …`), bound as a Bool `c`, the condition is `c = true`.
  int ** int       exponent an int EXPRESSION -> `Gen.ipowInt a e` (bound).  e < 0 (a float in Python) is OUTSIDE the
                   rendering and given as `none`; the theorems are stated for natural exponents.
  int(e)           of an int-typed e -> e.     list * int / int * list -> `Gen.listMul` (n <= 0: empty).
  int("".join(map(str, seq)), 2)   exactly this shape, built-in int / map / str, seq a list of ints -> `Gen.binNumeral seq`
                   (bound): the binary numeral of a 0/1 list, most significant digit first, `none` = ValueError on the empty
                   list.  TRUSTED RULE: an element other than 0/1 is OUTSIDE the rendering (Python parses the decimal
                   digits of every element: [10] is 2, [2] raises, [-1, 1] is -3) and is given as `none`; the theorems
                   are stated for bit lists (`GenL.bits`).
  max(l)           list of floats -> `Gen.pyMax` (first maximal element, empty = none); list of (float, list of float)
                   tuples -> `Gen.pyMaxPair` (Python's lexicographic tuple / list order, `Gen.pairLt`).
  (v, pos)         a 2-tuple of a float and a list of floats -> a Lean pair (every other display is a list, as before).
  [] / list()      an empty list; its element type is fixed by the first `append` / list-building loop.
  zip(a, b, c[, d]), `for p, q, r, s in …`   nested pairs `zip a (zip b (zip c d))` (length of the shortest, as zip).
  inlined functions may end in `if / elif / else` every path of which returns (`if c then a else b`).
  f = g / f, h = g, k / f = g if c else h    for module functions / local functions g, h, k: f is inlined at its calls like g;
                   the conditional form evaluates c once, at the assignment (bound to a fresh Bool), a call is
                   `if c then g(…) else h(…)` with the arguments evaluated once, before.
  x[i] = v         `x` a local list that provably has no other reference (used only as `x = …`, `x[i] = …`, `x[i]`,
                   `len(x)`, `return x`): state-passing `x := Gen.setItem x i v` (negative i from the end, IndexError =
                   none; the right-hand side is evaluated first).  Storing a float into a list of ints re-types the list
                   as floats (its int elements coerced — the rule of mixed displays).  Mutation of a PARAMETER, slice
                   assignment, append/insert/del on anything but the one list a loop builds: refused.  numpy views are
                   outside the rendering (the correspondence covers them).
  for (accumulation)  the body may also bind fresh locals (any use after the loop is refused) and may raise:
                   `List.foldlM` in Option instead of `List.foldl`; the accumulator may be a list updated by `x[i] = v`.
  while c: body    `Gen.whileLoop (fun s => decide c) (fun s => body) fuel s0` over the tuple s of the already defined
                   variables the body assigns (body: simple statements, no if / break / continue / return / nested loop
                   in the source text of the body; c cannot raise).  The generated function takes an extra first argument
                   `fuel : Nat`; its value is Python's result whenever every loop finishes within `fuel` iterations and
                   `none` when a loop is still running after `fuel` iterations (or the body raised).  The theorem block
                   must state the equality for EVERY fuel >= an explicit bound, which proves that bound on the number
                   of iterations (`Gen.bin_royal_road2_eq_model`, `…_terminates`).
  decorator factory (translate_decorator)   def D(p…): def wrap(function): @functools.wraps(function) def
                   wrapped(individual, *args, **kargs): BODY; return function(E, *args, **kargs) / return wrapped / return
                   wrap  ->  `Gen.D p… individual` = the value E handed to the decorated function (the other arguments
                   and the decorated function's result are passed through untouched; BODY must not mention them).
  class methods (translate_method)   a method as a function of the object's DECLARED fields, state-passing:
                   `self.X` read -> parameter `self_X` (in the order of the field table), a top-level `self.X = e` ->
                   `self_X = e`; a method without `return` that assigns exactly one field returns that field's new value.
                   Fields hold VALUES: that `self.X = v` keeps a reference to the caller's object is outside the rendering.
                   The decorator method `__call__(self, func)` with `@wraps(func) def wrapper(individual, *args, **kargs):
                   return func(E, *args, **kargs)`, `wrapper.a = self.a` …, `return wrapper` -> the value E.
                   Field types beyond the value types: FN = one of a fixed set of module functions (a generated
                   enumeration with `.apply`; calling it is bound, it can raise), OFN = None or a total pure function
                   list of float -> float (`if f:` is `f.isSome`, calling None is TypeError = none).
                   A parameter declared K(False) / K(True) is specialised: no binder, `if p:` / `if not p:` keeps the branch taken.
                   `self.m(…)` for another method m of the class that only reads fields: inlined at the call like a module
                   function (a method of the rendered set called with the constants its rendering is specialised to:
                   its generated definition on the same fields).
"""
import ast
import copy
import decimal
import os
import re
from fractions import Fraction


class Refuse(Exception):
    pass


F = ("F",)
I = ("I",)
B = ("B",)


def L(t):
    return ("L", t)


def P(a, b):
    return ("P", a, b)


def lean_type(t):
    if t == F:
        return "α"
    if t == I:
        return "Int"
    if t[0] == "L":
        return "List %s" % lean_type_atom(t[1])
    if t[0] == "P":
        return "%s × %s" % (lean_type_atom(t[1]), lean_type_atom(t[2]))
    if t[0] == "FN":
        return t[1]
    if t[0] == "OFN":
        return "Option (List α → α)"
    raise Refuse("no Lean type for %r" % (t,))


def FN(enum, args, ret):
    """one of a fixed set of module functions (generated enumeration `enum` with `enum.apply`), e.g. a peak function"""
    return ("FN", enum, tuple(args), ret)


OFN = ("OFN",)      # None, or a total pure user function  list of float -> float  (e.g. MovingPeaks.basis_function)


def K(value):
    """a parameter specialised to the constant `value` (True / False): no binder, `if <it>:` keeps one branch"""
    return ("K", value)


def lean_type_atom(t):
    s = lean_type(t)
    return s if " " not in s else "(%s)" % s


class Val:
    """a compiled pure Lean term with its sub-language type; `lit` = the Python int literal it came from"""
    def __init__(self, term, ty, lit=None):
        self.term, self.ty, self.lit = term, ty, lit


class Macro:
    """a lambda / nested def / module function, inlined at every call"""
    def __init__(self, params, body, env, name, is_expr):
        self.params, self.body, self.env, self.name, self.is_expr = params, body, env, name, is_expr


class CondMacro:
    """`f = g if c else h` for two inlinable functions: a call of f is `if c then g(…) else h(…)`; c is evaluated once,
    at the assignment (bound to a fresh Bool)"""
    def __init__(self, cond, a, b):
        self.cond, self.a, self.b = cond, a, b


LEAKED = object()


class Env:
    def __init__(self, parent=None):
        self.d, self.parent = {}, parent

    def get(self, k):
        e = self
        while e is not None:
            if k in e.d:
                return e.d[k]
            e = e.parent
        return None

    def set(self, k, v):
        self.d[k] = v


class Scope:
    """entries evaluated in order before the scope's result: ('let', name, term) | ('bind', name, option-term)"""
    def __init__(self):
        self.entries = []

    def partial(self):
        return any(e[0] == "bind" for e in self.entries)


MATH_FUN = {"sin": "RealLike.sin", "cos": "RealLike.cos", "sqrt": "RealLike.sqrt", "exp": "RealLike.exp",
            "log": "RealLike.log"}
LEAN_RESERVED = set("fun let in if then else do end at by from have show match with def theorem where open".split())


class FunctionTranslator:
    def __init__(self, module, fn, sig):
        self.m, self.fn, self.sig = module, fn, sig
        self.counter = 0
        self.inline_depth = 0
        self.inline_stack = []
        self.ret_ty = None
        self.uses_fuel = False
        self.no_tape = 0
        # a function that calls random.random() threads a TAPE: extra last parameter, result (value, rest of the tape)
        self.uses_tape = any(self.is_random_call(nd) for nd in ast.walk(fn))

    def is_random_call(self, nd):
        return isinstance(nd, ast.Call) and isinstance(nd.func, ast.Attribute) and nd.func.attr == "random" \
            and isinstance(nd.func.value, ast.Name) and nd.func.value.id == "random" \
            and self.m.globals.get("random") == ("other", "random", None) and not nd.args and not nd.keywords

    # -- names -----------------------------------------------------------------------------
    def fresh(self, base="t"):
        self.counter += 1
        return "%s%d" % (base, self.counter)

    def lname(self, py):
        base = "v_" + py if self.inline_depth == 0 else "v%d_%s" % (self.inline_depth, py)
        return base

    # -- literals --------------------------------------------------------------------------
    def float_literal(self, node):
        text = ast.get_source_segment(self.m.src, node)
        if text is None:
            raise Refuse("float literal without source text")
        text = text.strip().replace("_", "")
        try:
            d = decimal.Decimal(text)
        except decimal.InvalidOperation:
            raise Refuse("float literal %r is not a decimal" % text)
        if not d.is_finite():
            raise Refuse("non-finite literal %r" % text)
        sign, digits, exp = d.as_tuple()
        n = int("".join(map(str, digits)) or "0")
        if sign:
            raise Refuse("signed literal token %r" % text)
        if exp >= 0:
            num, den = n * 10 ** exp, 1
        else:
            num, den = n, 10 ** (-exp)
            while den > 1 and num % 10 == 0 and num != 0:   # 1.50 -> 15/10, 1.0 -> 1 (trailing zeros only)
                num //= 10
                den //= 10
            if num == 0:
                den = 1
        if Fraction(num, den) != Fraction(text):
            raise Refuse("literal %r: internal rendering error" % text)
        if float(Fraction(num, den)) != node.value:
            raise Refuse("literal %r does not round to the parsed constant %r" % (text, node.value))
        if num >= 2 ** 53 or den >= 2 ** 53:
            raise Refuse("literal %r needs more than 53 bits" % text)
        if den == 1:
            return Val("(RealLike.ofNat %d : α)" % num, F)
        return Val("(RealLike.ofRatio %d %d : α)" % (num, den), F)

    # -- coercions -------------------------------------------------------------------------
    def toF(self, v):
        if v.ty == F:
            return v
        if v.ty == I:
            if v.lit is not None:
                if v.lit >= 0:
                    return Val("(RealLike.ofNat %d : α)" % v.lit, F)
                return Val("(-(RealLike.ofNat %d) : α)" % (-v.lit), F)
            return Val("(Gen.ofInt %s : α)" % v.term, F)
        raise Refuse("a %r where a number is needed" % (v.ty,))

    def unify(self, a, b):
        if a.ty == b.ty:
            return a, b
        if {a.ty, b.ty} == {F, I}:
            return self.toF(a), self.toF(b)
        raise Refuse("operands of types %r and %r" % (a.ty, b.ty))

    # -- expressions -----------------------------------------------------------------------
    def bind(self, sc, optterm, ty, base="t"):
        # the same partial term evaluated twice in one scope (e.g. `individual[0]` five times) is bound once,
        # unless a variable it mentions was re-assigned in between
        for k, ent in enumerate(sc.entries):
            if ent[0] == "bind" and ent[2] == optterm:
                later = [x[1] for x in sc.entries[k + 1:] if x[0] == "let"]
                if not any(re.search(r"(?<![\w.])%s(?![\w])" % re.escape(nm), optterm) for nm in later):
                    return Val(ent[1], ty)
        n = self.fresh(base)
        sc.entries.append(("bind", n, optterm))
        return Val(n, ty)

    def expr(self, e, env, sc):
        meth = getattr(self, "e_" + type(e).__name__, None)
        if meth is None:
            raise Refuse("expression %s (line %d)" % (type(e).__name__, getattr(e, "lineno", 0)))
        return meth(e, env, sc)

    def e_Constant(self, e, env, sc):
        v = e.value
        if isinstance(v, bool) or v is None or isinstance(v, (str, bytes, complex)):
            raise Refuse("constant %r" % (v,))
        if isinstance(v, int):
            return Val("(%d : Int)" % v, I, lit=v)
        if isinstance(v, float):
            return self.float_literal(e)
        raise Refuse("constant %r" % (v,))

    def global_name(self, name):
        """what a module-level name denotes: ('math', attr) | ('op', 'mul') | ('reduce',) | ('func', FunctionDef) | None"""
        return self.m.globals.get(name)

    def e_Name(self, e, env, sc):
        b = env.get(e.id)
        if b is LEAKED:
            raise Refuse("use of the loop variable %s after its loop" % e.id)
        if b is not None:
            if isinstance(b, Macro):
                raise Refuse("function %s used as a value" % e.id)
            return b
        g = self.global_name(e.id)
        if g == ("math", "pi"):
            return Val("(RealLike.pi : α)", F)
        if g == ("math", "e"):
            return Val("(RealLike.exp (RealLike.ofNat 1) : α)", F)
        raise Refuse("name %s (line %d)" % (e.id, e.lineno))

    def e_Attribute(self, e, env, sc):
        if isinstance(e.value, ast.Name) and env.get(e.value.id) is None and self.global_name(e.value.id) == ("module", "math"):
            if e.attr == "pi":
                return Val("(RealLike.pi : α)", F)
            if e.attr == "e":
                return Val("(RealLike.exp (RealLike.ofNat 1) : α)", F)
        raise Refuse("attribute .%s (line %d)" % (e.attr, e.lineno))

    def e_UnaryOp(self, e, env, sc):
        if isinstance(e.op, ast.USub):
            v = self.expr(e.operand, env, sc)
            if v.ty == I:
                if v.lit is not None:
                    return Val("(%d : Int)" % (-v.lit), I, lit=-v.lit)
                return Val("(-%s)" % v.term, I)
            if v.ty == F:
                return Val("(-%s)" % v.term, F)
            raise Refuse("unary minus on %r" % (v.ty,))
        if isinstance(e.op, ast.Not):
            v = self.expr(e.operand, env, sc)
            if v.ty != B:
                raise Refuse("not on a non-condition")
            return Val("(¬ %s)" % v.term, B)
        raise Refuse("unary operator %s" % type(e.op).__name__)

    def e_BinOp(self, e, env, sc):
        op = e.op
        a = self.expr(e.left, env, sc)
        b = self.expr(e.right, env, sc)
        if isinstance(op, (ast.Add, ast.Sub, ast.Mult)):
            if isinstance(op, ast.Add) and a.ty[0] == "L" and b.ty == a.ty:
                return Val("(%s ++ %s)" % (a.term, b.term), a.ty)
            if isinstance(op, ast.Mult) and a.ty[0] == "L" and b.ty == I:
                return Val("(Gen.listMul %s %s)" % (a.term, b.term), a.ty)
            if isinstance(op, ast.Mult) and b.ty[0] == "L" and a.ty == I:
                return Val("(Gen.listMul %s %s)" % (b.term, a.term), b.ty)
            if a.ty not in (F, I) or b.ty not in (F, I):
                raise Refuse("arithmetic on %r, %r (line %d)" % (a.ty, b.ty, e.lineno))
            a, b = self.unify(a, b)
            sym = {ast.Add: "+", ast.Sub: "-", ast.Mult: "*"}[type(op)]
            return Val("(%s %s %s)" % (a.term, sym, b.term), a.ty)
        if isinstance(op, ast.Div):
            if a.ty not in (F, I) or b.ty not in (F, I):
                raise Refuse("division on %r, %r" % (a.ty, b.ty))
            if b.ty == I and b.lit is not None and b.lit != 0:
                b = self.toF(b)             # a non-zero int literal cannot raise
            if b.ty == I:
                d = self.bind(sc, "Gen.nz %s" % b.term, I, "d")
                if a.ty == I:
                    return Val("(Gen.idiv %s %s : α)" % (a.term, d.term), F)
                return Val("(%s / (Gen.ofInt %s : α))" % (a.term, d.term), F)
            a = self.toF(a)
            return Val("(%s / %s)" % (a.term, b.term), F)
        if isinstance(op, (ast.FloorDiv, ast.Mod)):
            if a.ty != I or b.ty != I:
                raise Refuse("// or % on non-ints")
            d = self.bind(sc, "Gen.nz %s" % b.term, I, "d")
            f = "Int.fdiv" if isinstance(op, ast.FloorDiv) else "Int.fmod"
            return Val("(%s %s %s)" % (f, a.term, d.term), I)
        if isinstance(op, ast.Pow):
            if b.ty == I and b.lit is not None and b.lit >= 0:
                if a.ty == F:
                    return Val("(Gen.ipow %s %d)" % (a.term, b.lit), F)
                if a.ty == I:
                    return Val("(%s ^ %d)" % (a.term, b.lit), I)
            if b.ty == F and a.ty in (F, I) and (a.ty == F or a.lit is not None):
                return Val("(RealLike.pow %s %s)" % (self.toF(a).term, b.term), F)
            if a.ty == I and b.ty == I and b.lit is None:
                return self.bind(sc, "Gen.ipowInt %s %s" % (a.term, b.term), I)
            raise Refuse("power %r ** %r (line %d)" % (a.ty, b.ty, e.lineno))
        raise Refuse("operator %s" % type(op).__name__)

    def e_Compare(self, e, env, sc):
        if len(e.ops) != 1:
            raise Refuse("chained comparison")
        a = self.expr(e.left, env, sc)
        b = self.expr(e.comparators[0], env, sc)
        op = e.ops[0]
        if a.ty not in (F, I) or b.ty not in (F, I):
            raise Refuse("comparison of %r, %r" % (a.ty, b.ty))
        a, b = self.unify(a, b)
        if isinstance(op, ast.Lt):
            return Val("(%s < %s)" % (a.term, b.term), B)
        if isinstance(op, ast.Gt):
            return Val("(%s < %s)" % (b.term, a.term), B)
        if isinstance(op, ast.LtE):
            return Val("(%s ≤ %s)" % (a.term, b.term), B)
        if isinstance(op, ast.GtE):
            return Val("(%s ≤ %s)" % (b.term, a.term), B)
        if isinstance(op, (ast.Eq, ast.NotEq)):
            if a.ty != I:
                raise Refuse("== on floats")
            return Val("(%s %s %s)" % (a.term, "=" if isinstance(op, ast.Eq) else "≠", b.term), B)
        raise Refuse("comparison %s" % type(op).__name__)

    def e_BoolOp(self, e, env, sc):
        self.no_tape += 1
        try:
            return self._e_BoolOp(e, env, sc)
        finally:
            self.no_tape -= 1

    def _e_BoolOp(self, e, env, sc):
        parts, scopes = [], []
        for v in e.values:
            sub = Scope()
            x = self.expr(v, env, sub)
            if x.ty != B:
                raise Refuse("and/or on non-conditions")
            parts.append(x.term)
            scopes.append(sub)
        if not any(sub.entries for sub in scopes):
            sym = " ∧ " if isinstance(e.op, ast.And) else " ∨ "
            return Val("(%s)" % sym.join(parts), B)
        # an operand needs evaluation (it can raise): Python's short-circuit order made explicit.  The first operand is
        # always evaluated (into the enclosing scope); operand k+1 only when the operands before it did not decide.
        sc.entries.extend(scopes[0].entries)
        is_and = isinstance(e.op, ast.And)
        t = self.wrap(scopes[-1], "some (decide %s)" % parts[-1])
        for k in range(len(parts) - 2, 0, -1):
            t = self.wrap(scopes[k], "(if %s then %s else some false)" % (parts[k], t) if is_and
                          else "(if %s then some true else %s)" % (parts[k], t))
        t = "(if %s then %s else some false)" % (parts[0], t) if is_and else "(if %s then some true else %s)" % (parts[0], t)
        n = self.fresh("c")
        sc.entries.append(("bind", n, t))
        return Val("(%s = true)" % n, B)

    def e_IfExp(self, e, env, sc):
        self.no_tape += 1
        try:
            return self._e_IfExp(e, env, sc)
        finally:
            self.no_tape -= 1

    def _e_IfExp(self, e, env, sc):
        c = self.expr(e.test, env, sc)
        if c.ty != B:
            raise Refuse("condition is not a comparison")
        sa, sb = Scope(), Scope()
        a = self.expr(e.body, env, sa)
        b = self.expr(e.orelse, env, sb)
        a, b = self.unify(a, b)
        if not sa.entries and not sb.entries:
            return Val("(if %s then %s else %s)" % (c.term, a.term, b.term), a.ty, )
        ta = self.wrap(sa, "some %s" % a.term)
        tb = self.wrap(sb, "some %s" % b.term)
        return self.bind(sc, "(if %s then %s else %s)" % (c.term, ta, tb), a.ty)

    def e_Subscript(self, e, env, sc):
        v = self.expr(e.value, env, sc)
        if v.ty[0] != "L":
            raise Refuse("subscript of %r" % (v.ty,))
        s = e.slice
        if isinstance(s, ast.Slice):
            if s.step is not None:
                raise Refuse("slice with a step")
            lo = self.expr(s.lower, env, sc) if s.lower is not None else None
            hi = self.expr(s.upper, env, sc) if s.upper is not None else None
            for x in (lo, hi):
                if x is not None and x.ty != I:
                    raise Refuse("slice bound of type %r" % (x.ty,))
            if hi is None and lo is not None and lo.lit is not None and lo.lit >= 0:
                return Val("(List.drop %d %s)" % (lo.lit, v.term), v.ty)
            if lo is None and hi is not None and hi.lit is not None and hi.lit >= 0:
                return Val("(List.take %d %s)" % (hi.lit, v.term), v.ty)
            if lo is None and hi is not None and hi.lit == -1:
                return Val("(List.dropLast %s)" % v.term, v.ty)
            if lo is None and hi is None:
                return v
            lt = "(some %s)" % lo.term if lo is not None else "none"
            ht = "(some %s)" % hi.term if hi is not None else "none"
            return Val("(Gen.slice %s %s %s)" % (v.term, lt, ht), v.ty)
        i = self.expr(s, env, sc)
        if i.ty != I:
            raise Refuse("index of type %r" % (i.ty,))
        if i.lit is not None and i.lit >= 0:
            return self.bind(sc, "%s[%d]?" % (v.term, i.lit), v.ty[1])
        return self.bind(sc, "Gen.index %s %s" % (v.term, i.term), v.ty[1])

    def seq_display(self, elts, env, sc, is_list=False):
        if not elts and is_list:
            return Val("[]", L("?"))       # element type fixed by the first append
        if not elts:
            raise Refuse("empty list / tuple display")
        vs = [self.expr(x, env, sc) for x in elts]
        if any(isinstance(x, ast.Starred) for x in elts):
            raise Refuse("starred element")
        tys = {v.ty for v in vs}
        if tys == {F, I} or tys == {F}:
            vs = [self.toF(v) for v in vs]
        elif len(tys) != 1:
            raise Refuse("display of mixed types")
        return Val("[%s]" % ", ".join(v.term for v in vs), L(vs[0].ty))

    def e_List(self, e, env, sc):
        return self.seq_display(e.elts, env, sc, is_list=True)

    def e_Tuple(self, e, env, sc):
        if len(e.elts) == 2 and not any(isinstance(x, ast.Starred) for x in e.elts) \
                and not any(self.is_random_call(nd) for x in e.elts for nd in ast.walk(x)):
            sub = Scope()
            saved = self.counter
            vs = [self.expr(x, env, sub) for x in e.elts]
            if all(isinstance(v, Val) for v in vs) and vs[0].ty == F and vs[1].ty == L(F):
                # a (value, position) tuple: a Lean pair (compared lexicographically, `Gen.pairLt`)
                sc.entries.extend(sub.entries)
                return Val("(%s, %s)" % (vs[0].term, vs[1].term), P(F, L(F)))
            self.counter = saved
        return self.seq_display(e.elts, env, sc)

    def e_Lambda(self, e, env, sc):
        raise Refuse("lambda used as a value (line %d)" % e.lineno)

    def params_of(self, args):
        if args.vararg or args.kwarg or args.kwonlyargs or args.posonlyargs:
            raise Refuse("*args / keyword-only parameters")
        return [a.arg for a in args.args]

    def comprehension(self, e, env, sc):
        self.no_tape += 1
        try:
            return self._comprehension(e, env, sc)
        finally:
            self.no_tape -= 1

    def _comprehension(self, e, env, sc):
        if len(e.generators) != 1:
            raise Refuse("nested comprehension")
        g = e.generators[0]
        if g.ifs or g.is_async:
            raise Refuse("comprehension with if")
        src = self.expr(g.iter, env, sc)
        if src.ty[0] != "L":
            raise Refuse("iteration over %r" % (src.ty,))
        p = self.fresh("p")
        inner = Env(env)
        self.bind_target(g.target, Val(p, src.ty[1]), inner)
        sub = Scope()
        body = self.expr(e.elt, inner, sub)
        if body.ty == B or isinstance(body, Macro):
            raise Refuse("comprehension of conditions")
        bt = "fun (%s : %s) => " % (p, lean_type(src.ty[1]))
        if not sub.entries:
            return Val("(List.map (%s%s) %s)" % (bt, body.term, src.term), L(body.ty))
        if not sub.partial():
            return Val("(List.map (%s%s) %s)" % (bt, self.wrap_pure(sub, body.term), src.term), L(body.ty))
        return self.bind(sc, "List.mapM (%s%s) %s" % (bt, self.wrap(sub, "some %s" % body.term), src.term), L(body.ty), "l")

    e_GeneratorExp = comprehension
    e_ListComp = comprehension

    def bind_target(self, target, val, env):
        if isinstance(target, ast.Name):
            env.set(target.id, val)
            return
        if isinstance(target, ast.Tuple) and len(target.elts) == 2 and val.ty[0] == "P" \
                and all(isinstance(x, ast.Name) for x in target.elts):
            env.set(target.elts[0].id, Val("%s.1" % val.term, val.ty[1]))
            env.set(target.elts[1].id, Val("%s.2" % val.term, val.ty[2]))
            return
        if isinstance(target, ast.Tuple) and len(target.elts) > 2 and all(isinstance(x, ast.Name) for x in target.elts):
            term, ty = val.term, val.ty
            for k, x in enumerate(target.elts):
                lastone = k == len(target.elts) - 1
                if not lastone and ty[0] != "P":
                    raise Refuse("loop target (line %d)" % target.lineno)
                if lastone:
                    env.set(x.id, Val(term, ty))
                else:
                    env.set(x.id, Val("%s.1" % term, ty[1]))
                    term, ty = "%s.2" % term, ty[2]
            return
        raise Refuse("loop target (line %d)" % target.lineno)

    def binary_fun(self, f, env, elem_ty):
        """a 2-argument function over `elem_ty` as a Lean term, or 'mul'"""
        if isinstance(f, ast.Name) and env.get(f.id) is None and self.global_name(f.id) == ("op", "mul"):
            return "mul"
        lam = None
        if isinstance(f, ast.Lambda):
            lam = Macro(self.params_of(f.args), f.body, env, "<lambda>", True)
        elif isinstance(f, ast.Name) and isinstance(env.get(f.id), Macro):
            lam = env.get(f.id)
        if lam is None or len(lam.params) != 2 or not lam.is_expr:
            raise Refuse("reduce with an unknown function")
        lb = lam.body
        if isinstance(lb, ast.BinOp) and isinstance(lb.op, ast.Mult) and isinstance(lb.left, ast.Name) \
                and isinstance(lb.right, ast.Name) and [lb.left.id, lb.right.id] == lam.params:
            return "mul"            # lambda x, y: x * y  is operator.mul
        x, y = self.fresh("a"), self.fresh("b")
        inner = Env(lam.env)
        inner.set(lam.params[0], Val(x, elem_ty))
        inner.set(lam.params[1], Val(y, elem_ty))
        sub = Scope()
        body = self.expr(lam.body, inner, sub)
        if sub.entries or body.ty != elem_ty:
            raise Refuse("reduce function that can raise or changes type")
        return "(fun (%s %s : %s) => %s)" % (x, y, lean_type(elem_ty), body.term)

    def e_Call(self, e, env, sc):
        if isinstance(e.func, ast.Name) and e.func.id == "sorted" and env.get("sorted") is None \
                and self.global_name("sorted") is None and len(e.args) == 1 and len(e.keywords) == 1 \
                and e.keywords[0].arg == "reverse" and isinstance(e.keywords[0].value, ast.Constant) \
                and e.keywords[0].value.value is True:
            a = self.expr(e.args[0], env, sc)
            if a.ty != L(P(F, L(F))):
                raise Refuse("sorted(reverse=True) of %r" % (a.ty,))
            return Val("(Gen.sortDesc %s)" % a.term, a.ty)
        sib = getattr(self, "siblings", {}).get(e.func.id) if isinstance(e.func, ast.Name) else None
        if sib is not None:
            # another rendered method of the same object (translate_method): its generated definition on the same fields
            kw = {k.arg: (k.value.value if isinstance(k.value, ast.Constant) else object()) for k in e.keywords}
            if kw != sib["kw"] or len(e.args) != len(sib["params"]):
                raise Refuse("call of the method %s with other arguments than its rendering is specialised to" % sib["name"])
            vals = [self.expr(x, env, sc) for x in e.args]
            for v, t in zip(vals, sib["params"]):
                if v.ty != t:
                    raise Refuse("call of the method %s: argument of type %r" % (sib["name"], v.ty))
            fs = [env.get("self_" + f) for f in sib["fields"]]
            if any(not isinstance(x, Val) for x in fs):
                raise Refuse("call of the method %s: field not available" % sib["name"])
            return self.bind(sc, "%s %s" % (sib["lean"], " ".join(x.term for x in fs + vals)), sib["ret"])
        if e.keywords:
            raise Refuse("keyword arguments (line %d)" % e.lineno)
        if any(isinstance(a, ast.Starred) for a in e.args):
            raise Refuse("starred argument")
        f = e.func
        fname = None
        if self.is_random_call(e) and env.get("random") is None:
            # random.random(): the next draw of the tape (exhausted tape = none); only in straight-line code, where the
            # rest of the tape reaches the following statements
            if self.no_tape or self.inline_depth:
                raise Refuse("random.random() inside a loop / comprehension / conditional expression (line %d)" % e.lineno)
            cur = env.get("__tape__")
            n = self.fresh("r")
            sc.entries.append(("bind", n, "Gen.popRandom %s" % cur.term))
            env.set("__tape__", Val("%s.2" % n, L(F)))
            return Val("%s.1" % n, F)
        if isinstance(f, ast.Name):
            b = env.get(f.id)
            if isinstance(b, Macro):
                return self.inline(b, e.args, env, sc)
            if isinstance(b, CondMacro):
                return self.call_cond_macro(b, e.args, env, sc)
            if isinstance(b, Val) and b.ty[0] == "FN":
                if len(e.args) != len(b.ty[2]):
                    raise Refuse("call of %s with %d arguments" % (f.id, len(e.args)))
                vals = [self.expr(x, env, sc) for x in e.args]
                for v, t in zip(vals, b.ty[2]):
                    if v.ty != t:
                        raise Refuse("call of %s: argument of type %r for %r" % (f.id, v.ty, t))
                return self.bind(sc, "%s.apply %s %s" % (b.ty[1], b.term, " ".join(v.term for v in vals)), b.ty[3])
            if isinstance(b, Val) and b.ty == OFN:
                if len(e.args) != 1:
                    raise Refuse("call of %s with %d arguments" % (f.id, len(e.args)))
                v = self.expr(e.args[0], env, sc)
                if v.ty != L(F):
                    raise Refuse("call of %s on %r" % (f.id, v.ty))
                # calling None raises TypeError (= none)
                return self.bind(sc, "Option.map (fun (g : List α → α) => g %s) %s" % (v.term, b.term), F)
            if b is not None:
                raise Refuse("call of the value %s" % f.id)
            g = self.global_name(f.id)
            if g is None:
                fname = ("builtin", f.id)
            else:
                fname = g
        elif isinstance(f, ast.Attribute) and isinstance(f.value, ast.Name) and env.get(f.value.id) is None \
                and self.global_name(f.value.id) == ("module", "math"):
            fname = ("math", f.attr)
        else:
            raise Refuse("call of %s (line %d)" % (ast.dump(f)[:40], e.lineno))
        n = len(e.args)
        if fname[0] == "math":
            if fname[1] in MATH_FUN and n == 1:
                a = self.toF(self.expr(e.args[0], env, sc))
                return Val("(%s %s)" % (MATH_FUN[fname[1]], a.term), F)
            raise Refuse("math.%s" % fname[1])
        if fname[0] == "func":
            fd = fname[1]
            if fd.name in self.inline_stack or fd.name == self.fn.name:
                raise Refuse("recursion through %s" % fd.name)
            if fd.decorator_list:
                raise Refuse("call of the decorated function %s" % fd.name)
            mac = Macro(self.params_of(fd.args), fd.body, Env(), fd.name, False)
            return self.inline(mac, e.args, env, sc)
        if fname == ("reduce",):
            if n not in (2, 3):
                raise Refuse("reduce arity")
            seq = self.expr(e.args[1], env, sc)
            if seq.ty[0] != "L" or seq.ty[1] not in (F, I):
                raise Refuse("reduce over %r" % (seq.ty,))
            et = seq.ty[1]
            if n == 3:
                init = self.expr(e.args[2], env, sc)
                if init.ty == I and et == F:
                    init = self.toF(init)
                if init.ty == F and et == I:
                    raise Refuse("reduce of ints from a float")
                fn = self.binary_fun(e.args[0], env, et)
                if fn == "mul":
                    if et == F:
                        return Val("(RealLike.prod %s %s)" % (init.term, seq.term), F)
                    return Val("(List.foldl (fun (a b : Int) => a * b) %s %s)" % (init.term, seq.term), I)
                return Val("(List.foldl %s %s %s)" % (fn, init.term, seq.term), et)
            fn = self.binary_fun(e.args[0], env, et)
            if fn == "mul":
                fn = "(fun (a b : %s) => a * b)" % lean_type(et)
            return self.bind(sc, "Gen.reduce1 %s %s" % (fn, seq.term), et)
        if fname[0] == "builtin":
            name = fname[1]
            if name == "len" and n == 1:
                a = self.expr(e.args[0], env, sc)
                if a.ty[0] != "L":
                    raise Refuse("len of %r" % (a.ty,))
                return Val("(%s.length : Int)" % a.term, I)
            if name == "abs" and n == 1:
                a = self.expr(e.args[0], env, sc)
                if a.ty == F:
                    return Val("(RealLike.abs %s)" % a.term, F)
                if a.ty == I:
                    return Val("(Int.natAbs %s : Int)" % a.term, I)
                raise Refuse("abs of %r" % (a.ty,))
            if name == "float" and n == 1:
                return self.toF(self.expr(e.args[0], env, sc))
            if name == "int" and n == 1:
                a = self.expr(e.args[0], env, sc)
                if a.ty != I:
                    raise Refuse("int() of %r" % (a.ty,))
                return a
            if name == "int" and n == 2:
                seq = self.bin_numeral_arg(e, env)
                if seq is None:
                    raise Refuse("int(s, base) other than int(\"\".join(map(str, seq)), 2) (line %d)" % e.lineno)
                a = self.expr(seq, env, sc)
                if a.ty != L(I):
                    raise Refuse("binary numeral of %r" % (a.ty,))
                return self.bind(sc, "Gen.binNumeral %s" % a.term, I)
            if name == "sum" and n == 1:
                a = self.expr(e.args[0], env, sc)
                if a.ty == L(F):
                    return Val("(RealLike.sum %s)" % a.term, F)
                if a.ty == L(I):
                    return Val("(Gen.isum %s)" % a.term, I)
                raise Refuse("sum of %r" % (a.ty,))
            if name == "list" and n == 0:
                return Val("[]", L("?"))
            if name == "max" and n == 1:
                a = self.expr(e.args[0], env, sc)
                if a.ty == L(P(F, L(F))):
                    return self.bind(sc, "Gen.pyMaxPair %s" % a.term, P(F, L(F)))
                if a.ty != L(F):
                    raise Refuse("max of %r" % (a.ty,))
                return self.bind(sc, "Gen.pyMax %s" % a.term, F)
            if name == "zip" and n in (3, 4):
                vs = [self.expr(x, env, sc) for x in e.args]
                if any(v.ty[0] != "L" or v.ty[1] == "?" for v in vs):
                    raise Refuse("zip of non-lists")
                term, ty = vs[-1].term, vs[-1].ty[1]
                for v in reversed(vs[:-1]):
                    term, ty = "(List.zip %s %s)" % (v.term, term), P(v.ty[1], ty)
                return Val(term, L(ty))
            if name == "zip" and n == 2:
                a = self.expr(e.args[0], env, sc)
                b = self.expr(e.args[1], env, sc)
                if a.ty[0] != "L" or b.ty[0] != "L":
                    raise Refuse("zip of non-lists")
                return Val("(List.zip %s %s)" % (a.term, b.term), L(P(a.ty[1], b.ty[1])))
            if name == "enumerate" and n == 1:
                a = self.expr(e.args[0], env, sc)
                if a.ty[0] != "L":
                    raise Refuse("enumerate of %r" % (a.ty,))
                return Val("(Gen.enumerate %s)" % a.term, L(P(I, a.ty[1])))
            if name == "range" and n in (1, 2, 3):
                args = [self.expr(a, env, sc) for a in e.args]
                if any(a.ty != I for a in args):
                    raise Refuse("range of non-ints")
                if n == 1:
                    return Val("(Gen.range (0 : Int) %s)" % args[0].term, L(I))
                if n == 2:
                    return Val("(Gen.range %s %s)" % (args[0].term, args[1].term), L(I))
                if args[2].lit == -1:
                    return Val("(Gen.rangeDown %s %s)" % (args[0].term, args[1].term), L(I))
                if args[2].lit == 1:
                    return Val("(Gen.range %s %s)" % (args[0].term, args[1].term), L(I))
                if args[2].lit is not None and args[2].lit >= 2:
                    return Val("(Gen.rangeStep %s %s %d)" % (args[0].term, args[1].term, args[2].lit), L(I))
                raise Refuse("range with a step that is not a positive literal or -1")
            if name == "reversed" and n == 1:
                a = self.expr(e.args[0], env, sc)
                if a.ty[0] != "L":
                    raise Refuse("reversed of %r" % (a.ty,))
                return Val("(List.reverse %s)" % a.term, a.ty)
            if name in ("list", "tuple") and n == 1:
                a = self.expr(e.args[0], env, sc)
                if a.ty[0] != "L":
                    raise Refuse("%s of %r" % (name, a.ty))
                return a
            raise Refuse("call of %s/%d (line %d)" % (name, n, e.lineno))
        raise Refuse("call of %r" % (fname,))

    def bin_numeral_arg(self, e, env):
        """`seq` when `e` is exactly `int("".join(map(str, seq)), 2)` with the built-in int / map / str, else None"""
        def builtin(node, nm):
            return isinstance(node, ast.Name) and node.id == nm and env.get(nm) is None and self.global_name(nm) is None
        a, b = e.args
        if not (isinstance(b, ast.Constant) and b.value == 2 and not isinstance(b.value, bool) and isinstance(b.value, int)):
            return None
        if not (isinstance(a, ast.Call) and not a.keywords and len(a.args) == 1 and isinstance(a.func, ast.Attribute)
                and a.func.attr == "join" and isinstance(a.func.value, ast.Constant) and a.func.value.value == ""):
            return None
        m = a.args[0]
        if not (isinstance(m, ast.Call) and not m.keywords and len(m.args) == 2 and builtin(m.func, "map")
                and builtin(m.args[0], "str") and builtin(e.func, "int")):
            return None
        return m.args[1]

    # -- inlining --------------------------------------------------------------------------
    def inline(self, mac, args, env, sc):
        if len(args) != len(mac.params):
            raise Refuse("call of %s with %d arguments" % (mac.name, len(args)))
        if mac.name in self.inline_stack:
            raise Refuse("recursion through %s" % mac.name)
        vals = [self.expr(a, env, sc) for a in args]
        return self.inline_vals(mac, vals, sc)

    def function_value(self, node, env):
        """the Macro a function-valued expression denotes (a module function, a local function), else None"""
        if isinstance(node, ast.Name):
            b = env.get(node.id)
            if isinstance(b, (Macro, CondMacro)):
                return b
            if b is None:
                g = self.global_name(node.id)
                if g is not None and g[0] == "func" and not g[1].decorator_list and g[1].name != self.fn.name:
                    return Macro(self.params_of(g[1].args), g[1].body, Env(), g[1].name, False)
        return None

    def call_cond_macro(self, cm, args, env, sc):
        vals = []
        for a in args:
            v = self.expr(a, env, sc)
            if isinstance(v, Macro) or isinstance(v, CondMacro):
                raise Refuse("function passed as an argument")
            if not (v.term.isidentifier() or v.lit is not None):
                n = self.fresh("a")
                sc.entries.append(("let", n, v.term))
                v = Val(n, v.ty)
            vals.append(v)
        sa, sb = Scope(), Scope()
        a = self.inline_vals(cm.a, vals, sa) if isinstance(cm.a, Macro) else None
        b = self.inline_vals(cm.b, vals, sb) if isinstance(cm.b, Macro) else None
        if a is None or b is None or isinstance(a, Macro) or isinstance(b, Macro) or a.ty != b.ty or a.ty == B:
            raise Refuse("conditional function value with branches of different types")
        if not sa.partial() and not sb.partial():
            return Val("(if %s then %s else %s)" % (cm.cond, self.wrap_pure(sa, a.term), self.wrap_pure(sb, b.term)), a.ty)
        return self.bind(sc, "(if %s then %s else %s)" % (cm.cond, self.wrap(sa, "some %s" % a.term),
                                                         self.wrap(sb, "some %s" % b.term)), a.ty)

    def inline_vals(self, mac, vals, sc):
        if len(vals) != len(mac.params):
            raise Refuse("call of %s with %d arguments" % (mac.name, len(vals)))
        if mac.name in self.inline_stack:
            raise Refuse("recursion through %s" % mac.name)
        self.inline_stack.append(mac.name)
        self.inline_depth += 1
        try:
            inner = Env(mac.env)
            for p, v in zip(mac.params, vals):
                if isinstance(v, Macro):
                    raise Refuse("function passed as an argument")
                if v.term.isidentifier() or v.lit is not None:
                    inner.set(p, v)
                else:
                    n = self.fresh(self.lname(p) + "_")
                    sc.entries.append(("let", n, v.term))
                    inner.set(p, Val(n, v.ty))
            if mac.is_expr:
                return self.expr(mac.body, inner, sc)
            # straight-line statements ending in one `return e`, evaluated into the caller's scope
            body = list(mac.body)
            if body and isinstance(body[0], ast.Expr) and isinstance(body[0].value, ast.Constant) \
                    and isinstance(body[0].value.value, str):
                body = body[1:]
            return self.inline_block(body, inner, sc, mac.name)
        finally:
            self.inline_depth -= 1
            self.inline_stack.pop()

    def inline_block(self, stmts, env, sc, name):
        """value of an inlined function body: simple statements, then `return e`, or an `if / elif / else` every path of
        which ends in `return e` (the rest of the block is duplicated into both branches) -> `if c then a else b`"""
        for k, st in enumerate(stmts):
            if isinstance(st, ast.Return):
                if st.value is None:
                    raise Refuse("inlined function %s: bare return" % name)
                return self.expr(st.value, env, sc)
            if isinstance(st, ast.If):
                c = self.expr(st.test, env, sc)
                if c.ty != B:
                    raise Refuse("condition is not a comparison")
                rest = stmts[k + 1:]
                sa, sb = Scope(), Scope()
                a = self.inline_block(list(st.body) + rest, Env(env), sa, name)
                b = self.inline_block(list(st.orelse) + rest, Env(env), sb, name)
                if isinstance(a, Macro) or isinstance(b, Macro) or a.ty != b.ty or a.ty == B:
                    raise Refuse("inlined function %s returns different types on its paths" % name)
                if not sa.partial() and not sb.partial():
                    return Val("(if %s then %s else %s)" % (c.term, self.wrap_pure(sa, a.term), self.wrap_pure(sb, b.term)), a.ty)
                return self.bind(sc, "(if %s then %s else %s)" % (c.term, self.wrap(sa, "some %s" % a.term),
                                                                 self.wrap(sb, "some %s" % b.term)), a.ty)
            if not self.simple_stmt(st, env, sc):
                raise Refuse("inlined function %s: statement %s" % (name, type(st).__name__))
        raise Refuse("inlined function %s does not end in `return e`" % name)

    # -- rendering of scopes ---------------------------------------------------------------
    def wrap(self, sc, final):
        """`final` : Option _ , evaluated after the scope's entries"""
        out = final
        for kind, n, t in reversed(sc.entries):
            if kind == "let":
                out = "(let %s := %s; %s)" % (n, t, out)
            else:
                out = "(Option.bind (%s) fun %s => %s)" % (t, n, out)
        return out

    def wrap_pure(self, sc, final):
        out = final
        for kind, n, t in reversed(sc.entries):
            assert kind == "let"
            out = "(let %s := %s; %s)" % (n, t, out)
        return out

    # -- statements ------------------------------------------------------------------------
    def assign(self, name, val, env, sc):
        if isinstance(val, (Macro, CondMacro)):
            env.set(name, val)
            return
        if val.ty == B:
            raise Refuse("condition stored in a variable")
        if val.ty == L("?"):
            env.set(name, val)          # an empty list whose element type is not known yet: no `let`
            return
        n = self.lname(name) if self.inline_depth == 0 else self.fresh(self.lname(name) + "_")
        sc.entries.append(("let", n, val.term))
        env.set(name, Val(n, val.ty))

    def unaliased_local_list(self, name):
        """True when `name` is a local (not a parameter) of the function being translated that is only ever used as
        `name = …`, `name[i] = …`, `name[i]`, `len(name)`, `return name` / the value handed on by a decorator: no other
        reference to the list object can exist, so updating it in state-passing style is faithful"""
        if self.inline_depth != 0 or name in [a.arg for a in self.fn.args.args]:
            return False
        ok = set()
        for node in ast.walk(self.fn):
            if isinstance(node, ast.Subscript) and isinstance(node.value, ast.Name):
                ok.add(id(node.value))
            elif isinstance(node, ast.Call) and isinstance(node.func, ast.Name) and node.func.id == "len" and len(node.args) == 1:
                ok.add(id(node.args[0]))
            elif isinstance(node, ast.Return) and node.value is not None:
                ok.add(id(node.value))
        for node in ast.walk(self.fn):
            if isinstance(node, ast.Name) and node.id == name and not isinstance(node.ctx, ast.Store) and id(node) not in ok:
                return False
            if isinstance(node, (ast.Global, ast.Nonlocal)):
                return False
        return True

    def item_assign(self, st, env, sc):
        """`x[i] = v` on an unaliased local list -> `x := Gen.setItem x i v` (IndexError = none)"""
        t = st.targets[0]
        name = t.value.id
        lst = env.get(name)
        if not isinstance(lst, Val) or lst.ty[0] != "L" or lst.ty[1] not in (F, I):
            raise Refuse("item assignment on %s (line %d)" % (name, st.lineno))
        if not self.unaliased_local_list(name):
            raise Refuse("item assignment on %s, which may have another reference (line %d)" % (name, st.lineno))
        v = self.expr(st.value, env, sc)      # Python evaluates the right-hand side first
        i = self.expr(t.slice, env, sc)
        if i.ty != I or isinstance(v, Macro) or v.ty not in (F, I):
            raise Refuse("item assignment x[%r] = %r" % (i.ty, getattr(v, "ty", None)))
        lt = lst
        if lst.ty[1] == I and v.ty == F:
            lt = Val("(List.map (fun (z : Int) => (Gen.ofInt z : α)) %s)" % lst.term, L(F))
        elif lst.ty[1] == F and v.ty == I:
            v = self.toF(v)
        r = self.bind(sc, "Gen.setItem %s %s %s" % (lt.term, i.term, v.term), lt.ty, "l")
        self.assign(name, r, env, sc)

    def simple_stmt(self, st, env, sc):
        """statements that only extend the scope (no control flow leaves them); False = not one of them"""
        if isinstance(st, ast.Expr) and isinstance(st.value, ast.Constant) and isinstance(st.value.value, str):
            return True
        if isinstance(st, ast.Assign) and len(st.targets) == 1 and isinstance(st.targets[0], ast.Tuple) \
                and isinstance(st.value, ast.Tuple) and len(st.value.elts) == len(st.targets[0].elts) \
                and all(isinstance(t, ast.Name) for t in st.targets[0].elts) \
                and not any(isinstance(v, (ast.Starred, ast.Lambda)) for v in st.value.elts):
            # a, b = e1, e2 : the right-hand sides are evaluated first, then bound left to right
            fvs = [self.function_value(v, env) for v in st.value.elts]
            if all(isinstance(x, Macro) for x in fvs):
                for t, x in zip(st.targets[0].elts, fvs):
                    self.assign(t.id, x, env, sc)
                return True
            vals = [self.expr(v, env, sc) for v in st.value.elts]
            tmps = []
            for t, v in zip(st.targets[0].elts, vals):
                if isinstance(v, Macro) or v.ty == B:
                    raise Refuse("tuple assignment of a function / condition")
                n = self.fresh("u")
                sc.entries.append(("let", n, v.term))
                tmps.append(Val(n, v.ty))
            for t, v in zip(st.targets[0].elts, tmps):
                self.assign(t.id, v, env, sc)
            return True
        if isinstance(st, ast.Assign) and len(st.targets) == 1 and isinstance(st.targets[0], ast.Subscript) \
                and isinstance(st.targets[0].value, ast.Name) and not isinstance(st.targets[0].slice, ast.Slice):
            self.item_assign(st, env, sc)
            return True
        if isinstance(st, ast.Assign):
            if len(st.targets) != 1 or not isinstance(st.targets[0], ast.Name):
                raise Refuse("assignment target (line %d)" % st.lineno)
            name = st.targets[0].id
            fv = self.function_value(st.value, env)
            if fv is not None:
                self.assign(name, fv, env, sc)          # f = g  (a module function / local function as a value)
                return True
            if isinstance(st.value, ast.IfExp):
                fa, fb = self.function_value(st.value.body, env), self.function_value(st.value.orelse, env)
                if isinstance(fa, Macro) and isinstance(fb, Macro):
                    c = self.expr(st.value.test, env, sc)
                    if c.ty != B:
                        raise Refuse("condition is not a comparison")
                    n = self.fresh("c")
                    sc.entries.append(("let", n, "decide %s" % c.term))
                    self.assign(name, CondMacro("(%s = true)" % n, fa, fb), env, sc)
                    return True
            if isinstance(st.value, ast.Lambda):
                self.assign(name, Macro(self.params_of(st.value.args), st.value.body, env, name, True), env, sc)
            else:
                self.assign(name, self.expr(st.value, env, sc), env, sc)
            return True
        if isinstance(st, ast.AugAssign):
            if not isinstance(st.target, ast.Name):
                raise Refuse("augmented assignment target")
            fake = ast.BinOp(left=ast.Name(id=st.target.id, ctx=ast.Load(), lineno=st.lineno, col_offset=0), op=st.op,
                             right=st.value, lineno=st.lineno, col_offset=0)
            self.assign(st.target.id, self.expr(fake, env, sc), env, sc)
            return True
        if isinstance(st, ast.FunctionDef):
            if st.decorator_list:
                raise Refuse("decorated nested function")
            self.assign(st.name, Macro(self.params_of(st.args), st.body, env, st.name, False), env, sc)
            return True
        if isinstance(st, ast.Expr) and isinstance(st.value, ast.Call) and isinstance(st.value.func, ast.Attribute) \
                and isinstance(st.value.func.value, ast.Name) and st.value.func.attr in ("append", "extend") \
                and len(st.value.args) == 1 and not st.value.keywords:
            name = st.value.func.value.id
            lst = env.get(name)
            if not isinstance(lst, Val) or lst.ty[0] != "L":
                raise Refuse("%s.%s on a non-list" % (name, st.value.func.attr))
            a = self.expr(st.value.args[0], env, sc)
            if lst.ty[1] == "?":
                if isinstance(a, Macro) or a.ty == B:
                    raise Refuse("append of a function / condition")
                lst = Val("([] : List %s)" % lean_type_atom(a.ty if st.value.func.attr == "append" else a.ty[1]),
                          L(a.ty) if st.value.func.attr == "append" else a.ty)
            if st.value.func.attr == "append":
                if a.ty == I and lst.ty[1] == F:
                    a = self.toF(a)
                if a.ty != lst.ty[1]:
                    raise Refuse("append of %r to a list of %r" % (a.ty, lst.ty[1]))
                self.assign(name, Val("(%s ++ [%s])" % (lst.term, a.term), lst.ty), env, sc)
            else:
                if a.ty != lst.ty:
                    raise Refuse("extend of %r by %r" % (lst.ty, a.ty))
                self.assign(name, Val("(%s ++ %s)" % (lst.term, a.term), lst.ty), env, sc)
            return True
        if isinstance(st, ast.For):
            self.for_loop(st, env, sc)
            return True
        if isinstance(st, ast.While):
            self.while_loop(st, env, sc)
            return True
        return False

    def assigned_names(self, stmts):
        out, appended = set(), set()
        for st in stmts:
            for node in ast.walk(st):
                if isinstance(node, (ast.Assign, ast.AugAssign)):
                    ts = node.targets if isinstance(node, ast.Assign) else [node.target]
                    for t in ts:
                        if isinstance(t, ast.Subscript) and isinstance(t.value, ast.Name) and isinstance(node, ast.Assign):
                            out.add(t.value.id)
                            continue
                        if not isinstance(t, ast.Name):
                            raise Refuse("assignment target inside a loop")
                        out.add(t.id)
                elif isinstance(node, ast.Call) and isinstance(node.func, ast.Attribute) and isinstance(node.func.value, ast.Name) \
                        and node.func.attr in ("append", "extend"):
                    appended.add(node.func.value.id)
                elif isinstance(node, (ast.For, ast.While, ast.Return, ast.Break, ast.FunctionDef, ast.Try, ast.With)):
                    raise Refuse("%s inside a loop body" % type(node).__name__)
        return out, appended

    def for_loop(self, st, env, sc):
        self.no_tape += 1
        try:
            return self._for_loop(st, env, sc)
        finally:
            self.no_tape -= 1

    def _for_loop(self, st, env, sc):
        if st.orelse:
            raise Refuse("for/else")
        assigned, appended = self.assigned_names(st.body)
        src = self.expr(st.iter, env, sc)
        if src.ty[0] != "L":
            raise Refuse("iteration over %r" % (src.ty,))
        p = self.fresh("p")
        inner = Env(env)
        self.bind_target(st.target, Val(p, src.ty[1]), inner)
        for tn in [x.id for x in ast.walk(st.target) if isinstance(x, ast.Name)]:
            if env.get(tn) is not None:
                raise Refuse("loop variable %s re-uses the name of a variable" % tn)
            env.set(tn, LEAKED)        # Python leaves the loop variable bound after the loop: any later use is refused
        outer_assigned = [n for n in sorted(assigned) if isinstance(env.get(n), Val)]
        if not appended:
            # accumulation
            if len(outer_assigned) != 1:
                raise Refuse("loop that assigns %s (exactly one accumulator is supported)" % sorted(assigned))
            acc = outer_assigned[0]
            cur = env.get(acc)
            locals_ = sorted(assigned - {acc})
            if any(env.get(n) is not None for n in locals_):
                raise Refuse("loop that assigns %s (exactly one accumulator is supported)" % sorted(assigned))
            a = self.fresh("acc")
            inner.set(acc, Val(a, cur.ty))
            body = None
            if not locals_:
                saved = self.counter
                try:
                    body = self.acc_block(list(st.body), inner, acc, cur.ty)
                except Refuse as ex:
                    if "can raise" not in str(ex):
                        raise
                    self.counter = saved
                    inner = Env(env)
                    self.bind_target(st.target, Val(p, src.ty[1]), inner)
                    inner.set(acc, Val(a, cur.ty))
            if body is None:
                # the body binds fresh locals (refused after the loop) and / or can raise: `List.foldlM` in Option
                saved = self.counter
                try:
                    tree = self.acc_tree(list(st.body), inner, acc, cur.ty)
                except Refuse as ex:
                    if "accumulator changes type" not in str(ex) or cur.ty != L(I):
                        raise
                    # a list of ints into which the body stores floats: the list is a list of floats from the start
                    # (its int elements coerced — the rule of mixed displays)
                    self.counter = saved
                    cur = Val("(List.map (fun (z : Int) => (Gen.ofInt z : α)) %s)" % cur.term, L(F))
                    inner = Env(env)
                    self.bind_target(st.target, Val(p, src.ty[1]), inner)
                    inner.set(acc, Val(a, cur.ty))
                    tree = self.acc_tree(list(st.body), inner, acc, cur.ty)
                partial = self.tree_partial(tree)
                body = self.render_tree(tree, partial)
                for n in locals_:
                    env.set(n, LEAKED)
                lam = "(fun (%s : %s) (%s : %s) => %s)" % (a, lean_type(cur.ty), p, lean_type(src.ty[1]), body)
                if partial:
                    r = self.bind(sc, "List.foldlM %s %s %s" % (lam, cur.term, src.term), cur.ty)
                    self.assign(acc, r, env, sc)
                else:
                    self.assign(acc, Val("(List.foldl %s %s %s)" % (lam, cur.term, src.term), cur.ty), env, sc)
                return
            term = "(List.foldl (fun (%s : %s) (%s : %s) => %s) %s %s)" % (a, lean_type(cur.ty), p, lean_type(src.ty[1]), body,
                                                                          cur.term, src.term)
            self.assign(acc, Val(term, cur.ty), env, sc)
            return
        if len(appended) != 1 or outer_assigned:
            raise Refuse("loop that appends to %s and assigns %s" % (sorted(appended), outer_assigned))
        name = list(appended)[0]
        lst = env.get(name)
        if not isinstance(lst, Val) or lst.ty[0] != "L":
            raise Refuse("append to a non-list in a loop")
        # the body may use the list only as the receiver of `.append` (an element must not depend on earlier ones)
        receivers = set()
        for node in ast.walk(ast.Module(body=st.body, type_ignores=[])):
            if isinstance(node, ast.Call) and isinstance(node.func, ast.Attribute) and node.func.attr == "append" \
                    and isinstance(node.func.value, ast.Name) and node.func.value.id == name:
                receivers.add(id(node.func.value))
        for node in ast.walk(ast.Module(body=st.body, type_ignores=[])):
            if isinstance(node, ast.Name) and node.id == name and id(node) not in receivers:
                raise Refuse("loop body reads the list it builds")
        if lst.ty[1] == "?":
            self.infer_elem = None
            tree, partial = self.build_block(list(st.body), inner, name, "?")
            lst = Val("([] : List %s)" % lean_type_atom(self.infer_elem), L(self.infer_elem))
        else:
            tree, partial = self.build_block(list(st.body), inner, name, lst.ty[1])
        bt = "fun (%s : %s) => " % (p, lean_type(src.ty[1]))
        if self.last_skip:
            if partial:
                l = self.bind(sc, "List.mapM (%s%s) %s" % (bt, tree, src.term), lst.ty, "l")
                self.assign(name, Val("(%s ++ List.filterMap id %s)" % (lst.term, l.term), lst.ty), env, sc)
            else:
                self.assign(name, Val("(%s ++ List.filterMap (%s%s) %s)" % (lst.term, bt, tree, src.term), lst.ty), env, sc)
        elif partial:
            l = self.bind(sc, "List.mapM (%s%s) %s" % (bt, tree, src.term), lst.ty, "l")
            self.assign(name, Val("(%s ++ %s)" % (lst.term, l.term), lst.ty), env, sc)
        else:
            self.assign(name, Val("(%s ++ List.map (%s%s) %s)" % (lst.term, bt, tree, src.term), lst.ty), env, sc)

    def acc_block(self, stmts, env, acc, ty):
        """value of the accumulator after the loop body (pure)"""
        sub = Scope()
        for k, st in enumerate(stmts):
            if isinstance(st, ast.If):
                c = self.expr(st.test, env, sub)
                if c.ty != B:
                    raise Refuse("condition is not a comparison")
                rest = stmts[k + 1:]
                a = self.acc_block(list(st.body) + rest, Env(env), acc, ty)
                b = self.acc_block(list(st.orelse) + rest, Env(env), acc, ty)
                if sub.partial():
                    raise Refuse("accumulation loop body that can raise")
                return self.wrap_pure(sub, "(if %s then %s else %s)" % (c.term, a, b))
            if isinstance(st, ast.Continue):
                break
            if isinstance(st, (ast.Assign, ast.AugAssign)):
                self.simple_stmt(st, env, sub)
                continue
            raise Refuse("statement %s in an accumulation loop" % type(st).__name__)
        if sub.partial():
            raise Refuse("accumulation loop body that can raise")
        v = env.get(acc)
        if v.ty != ty:
            raise Refuse("accumulator changes type")
        return self.wrap_pure(sub, v.term)

    def acc_tree(self, stmts, env, acc, ty):
        """like acc_block, as a tree for render_tree: the body may bind locals and raise"""
        sub = Scope()
        for k, st in enumerate(stmts):
            if isinstance(st, ast.If):
                c = self.expr(st.test, env, sub)
                if c.ty != B:
                    raise Refuse("condition is not a comparison")
                rest = stmts[k + 1:]
                a = self.acc_tree(list(st.body) + rest, Env(env), acc, ty)
                b = self.acc_tree(list(st.orelse) + rest, Env(env), acc, ty)
                return ("if", sub, c.term, a, b)
            if isinstance(st, ast.Continue):
                break
            if isinstance(st, (ast.Assign, ast.AugAssign)):
                self.simple_stmt(st, env, sub)
                continue
            raise Refuse("statement %s in an accumulation loop" % type(st).__name__)
        v = env.get(acc)
        if v.ty != ty:
            raise Refuse("accumulator changes type")
        return ("leaf", sub, v.term)

    def tuple_proj(self, s, k, n):
        if n == 1:
            return s
        return "%s%s%s" % (s, ".2" * k, ".1" if k < n - 1 else "")

    def while_loop(self, st, env, sc):
        self.no_tape += 1
        try:
            return self._while_loop(st, env, sc)
        finally:
            self.no_tape -= 1

    def _while_loop(self, st, env, sc):
        """`while c: body` -> `Gen.whileLoop c body fuel state` (state = the already defined variables the body assigns)"""
        if st.orelse:
            raise Refuse("while/else")
        assigned = set()
        for b in st.body:
            for node in ast.walk(b):
                if isinstance(node, (ast.Assign, ast.AugAssign)):
                    ts = node.targets if isinstance(node, ast.Assign) else [node.target]
                    for t in ts:
                        for x in ([t] if not isinstance(t, ast.Tuple) else t.elts):
                            if not isinstance(x, ast.Name):
                                raise Refuse("assignment target inside a while body")
                            assigned.add(x.id)
                elif isinstance(node, (ast.For, ast.While, ast.Return, ast.Break, ast.Continue, ast.FunctionDef, ast.Lambda,
                                       ast.Try, ast.With, ast.If)):
                    raise Refuse("%s inside a while body" % type(node).__name__)
                elif isinstance(node, ast.Call) and isinstance(node.func, ast.Attribute) and isinstance(node.func.value, ast.Name) \
                        and env.get(node.func.value.id) is not None:
                    raise Refuse("method call on a variable inside a while body")
        state = [n for n in sorted(assigned) if isinstance(env.get(n), Val)]
        locals_ = sorted(assigned - set(state))
        if not state or any(env.get(n) is not None for n in locals_):
            raise Refuse("while body that assigns %s" % sorted(assigned))
        tys = [env.get(n).ty for n in state]
        if any(t == B for t in tys):
            raise Refuse("condition stored in a variable")
        sty = " × ".join(lean_type_atom(t) for t in tys)
        s = self.fresh("s")
        inner_c, inner_b = Env(env), Env(env)
        for k, (n, t) in enumerate(zip(state, tys)):
            inner_c.set(n, Val(self.tuple_proj(s, k, len(state)), t))
            inner_b.set(n, Val(self.tuple_proj(s, k, len(state)), t))
        sub = Scope()
        c = self.expr(st.test, inner_c, sub)
        if sub.entries or c.ty != B:
            raise Refuse("while condition that needs evaluation or is not a comparison")
        sub = Scope()
        for b in st.body:
            if not self.simple_stmt(b, inner_b, sub):
                raise Refuse("statement %s in a while body" % type(b).__name__)
        final = "some (%s)" % ", ".join(inner_b.get(n).term for n in state)
        init = "(%s)" % ", ".join(env.get(n).term for n in state)
        self.uses_fuel = True
        w = self.fresh("w")
        sc.entries.append(("bind", w, "Gen.whileLoop (fun (%s : %s) => decide %s) (fun (%s : %s) => %s) fuel %s"
                           % (s, sty, c.term, s, sty, self.wrap(sub, final), init)))
        for k, (n, t) in enumerate(zip(state, tys)):
            self.assign(n, Val(self.tuple_proj(w, k, len(state)), t), env, sc)
        for n in locals_:
            env.set(n, LEAKED)

    def build_block(self, stmts, env, lst, elem_ty, appended=None):
        """(term, partial): the element appended by one iteration — exactly one append on every path.
        partial -> term : Option elem, else term : elem"""
        # first pass: try pure, second: partial; implemented by building a tree and rendering it twice
        self.allow_skip = True
        try:
            tree = self.build_tree(stmts, env, lst, elem_ty, None)
        finally:
            self.allow_skip = False
        partial = self.tree_partial(tree)
        self.last_skip = self.tree_skips(tree)
        return self.render_tree(tree, partial, self.last_skip), partial

    def build_tree(self, stmts, env, lst, elem_ty, got):
        sub = Scope()
        for k, st in enumerate(stmts):
            if isinstance(st, ast.If):
                c = self.expr(st.test, env, sub)
                if c.ty != B:
                    raise Refuse("condition is not a comparison")
                rest = stmts[k + 1:]
                a = self.build_tree(list(st.body) + rest, Env(env), lst, elem_ty, got)
                b = self.build_tree(list(st.orelse) + rest, Env(env), lst, elem_ty, got)
                return ("if", sub, c.term, a, b)
            if isinstance(st, ast.Continue):
                break
            if isinstance(st, ast.Expr) and isinstance(st.value, ast.Call) and isinstance(st.value.func, ast.Attribute) \
                    and isinstance(st.value.func.value, ast.Name) and st.value.func.value.id == lst \
                    and st.value.func.attr == "append" and len(st.value.args) == 1:
                if got is not None:
                    raise Refuse("two appends on one path of a loop body")
                v = self.expr(st.value.args[0], env, sub)
                if elem_ty == "?":
                    if isinstance(v, Macro) or v.ty == B:
                        raise Refuse("append of a function / condition")
                    if self.infer_elem is None:
                        self.infer_elem = v.ty
                    if self.infer_elem != v.ty:
                        raise Refuse("appends of different types")
                elif v.ty == I and elem_ty == F:
                    v = self.toF(v)
                if elem_ty != "?" and v.ty != elem_ty:
                    raise Refuse("append of %r to a list of %r" % (v.ty, elem_ty))
                got = v.term
                continue
            if isinstance(st, ast.Assign):
                self.simple_stmt(st, env, sub)
                continue
            raise Refuse("statement %s in a list-building loop" % type(st).__name__)
        if got is None:
            if not getattr(self, "allow_skip", False):
                raise Refuse("a path of the loop body appends nothing")
            return ("leaf", sub, None)
        return ("leaf", sub, got)

    def tree_partial(self, t):
        if t[0] == "leaf":
            return t[1].partial()
        return t[1].partial() or self.tree_partial(t[3]) or self.tree_partial(t[4])

    def tree_skips(self, t):
        if t[0] == "leaf":
            return t[2] is None
        return self.tree_skips(t[3]) or self.tree_skips(t[4])

    def render_tree(self, t, partial, skip=False):
        if skip:
            # a loop whose body appends on some paths only: one iteration yields an Option (none = nothing appended)
            if t[0] == "leaf":
                v = "none" if t[2] is None else "(some %s)" % t[2]
                return self.wrap(t[1], "some %s" % v) if partial else self.wrap_pure(t[1], v)
            inner = "(if %s then %s else %s)" % (t[2], self.render_tree(t[3], partial, True), self.render_tree(t[4], partial, True))
            return self.wrap(t[1], inner) if partial else self.wrap_pure(t[1], inner)
        if t[0] == "leaf":
            return self.wrap(t[1], "some %s" % t[2]) if partial else self.wrap_pure(t[1], t[2])
        inner = "(if %s then %s else %s)" % (t[2], self.render_tree(t[3], partial), self.render_tree(t[4], partial))
        return self.wrap(t[1], inner) if partial else self.wrap_pure(t[1], inner)

    def block(self, stmts, env):
        """Lean term of type Option R for a statement list that ends in `return` on every path"""
        sc = Scope()
        for k, st in enumerate(stmts):
            if self.simple_stmt(st, env, sc):
                continue
            if isinstance(st, ast.Return):
                if st.value is None:
                    raise Refuse("bare return")
                v = self.expr(st.value, env, sc)
                if v.ty == B:
                    raise Refuse("returns a condition")
                if self.ret_ty is None:
                    self.ret_ty = v.ty
                elif self.ret_ty != v.ty:
                    if {self.ret_ty, v.ty} == {F, I}:
                        raise Refuse("returns int on one path and float on another")
                    raise Refuse("returns of different types")
                if self.uses_tape:
                    return self.wrap(sc, "some (%s, %s)" % (v.term, env.get("__tape__").term))
                return self.wrap(sc, "some %s" % v.term)
            if isinstance(st, ast.If):
                kt, neg = st.test, False
                if isinstance(kt, ast.UnaryOp) and isinstance(kt.op, ast.Not):
                    kt, neg = kt.operand, True
                if isinstance(kt, ast.Name) and isinstance(env.get(kt.id), Val) and env.get(kt.id).ty[0] == "K":
                    # a parameter specialised to a constant: only the branch taken is rendered
                    chosen = st.body if bool(env.get(kt.id).ty[1]) != neg else st.orelse
                    return self.wrap(sc, self.block(list(chosen) + stmts[k + 1:], env))
                c = self.expr(st.test, env, sc)
                if isinstance(c, Val) and c.ty == OFN:
                    c = Val("(%s.isSome = true)" % c.term, B)      # a function object is true, None is false
                if c.ty != B:
                    raise Refuse("condition is not a comparison")
                rest = stmts[k + 1:]
                a = self.block(list(st.body) + rest, Env(env))
                b = self.block(list(st.orelse) + rest, Env(env))
                return self.wrap(sc, "(if %s then %s else %s)" % (c.term, a, b))
            raise Refuse("statement %s (line %d)" % (type(st).__name__, st.lineno))
        raise Refuse("a path reaches the end of the function without `return`")

    def translate(self, lean_name):
        fn = self.fn
        if fn.decorator_list:
            raise Refuse("decorated function")
        params = self.params_of(fn.args)
        env = Env()
        binders = []
        for p in params:
            if p not in self.sig:
                raise Refuse("no declared type for parameter %s" % p)
            n = self.lname(p)
            if self.sig[p][0] == "K":
                env.set(p, Val("<constant>", self.sig[p]))
                continue
            env.set(p, Val(n, self.sig[p]))
            binders.append("(%s : %s)" % (n, lean_type(self.sig[p])))
        for hname, (hps, hbody, hn) in getattr(self, "helper_macros", {}).items():
            env.set(hname, Macro(hps, hbody, env, "method " + hn, False))
        if self.uses_tape:
            env.set("__tape__", Val("tape", L(F)))
            binders.append("(tape : List α)")
        body = self.block(list(fn.body), env)
        defaults = []
        nd = len(fn.args.defaults)
        for p, d in zip(params[len(params) - nd:], fn.args.defaults):
            sc = Scope()
            v = self.expr(d, Env(), sc)
            if sc.entries:
                raise Refuse("default value that needs evaluation")
            if self.sig[p] == F:
                v = self.toF(v)
            if v.ty != self.sig[p]:
                raise Refuse("default of %s has type %r" % (p, v.ty))
            defaults.append("def %s_dflt_%s : %s := %s" % (lean_name, p, lean_type(self.sig[p]), v.term))
        if self.uses_fuel:
            binders.insert(0, "(fuel : Nat)")
        if self.uses_tape:
            text = "def %s %s : Option (%s × List α) :=\n  %s" % (lean_name, " ".join(binders), lean_type(self.ret_ty), body)
            return "\n".join([text] + defaults), self.ret_ty
        text = "def %s %s : Option %s :=\n  %s" % (lean_name, " ".join(binders), lean_type_atom(self.ret_ty), body)
        return "\n".join([text] + defaults), self.ret_ty


class Module:
    """one Python source file: its text, AST, and what its module-level names denote"""
    def __init__(self, path):
        self.path = path
        self.src = open(path).read()
        self.tree = ast.parse(self.src)
        self.globals = {}
        self.functions = {}
        self.public = []
        for node in self.tree.body:
            if isinstance(node, ast.ImportFrom) and node.level == 0:
                for a in node.names:
                    nm = a.asname or a.name
                    if node.module == "math":
                        self.globals[nm] = ("math", a.name)
                    elif node.module == "operator" and a.name == "mul":
                        self.globals[nm] = ("op", "mul")
                    elif node.module == "functools" and a.name == "reduce":
                        self.globals[nm] = ("reduce",)
                    else:
                        self.globals[nm] = ("other", node.module, a.name)
            elif isinstance(node, ast.Import):
                for a in node.names:
                    nm = a.asname or a.name.split(".")[0]
                    self.globals[nm] = ("module", a.name) if a.name == "math" else ("other", a.name, None)
            elif isinstance(node, ast.FunctionDef):
                self.globals[node.name] = ("func", node)
                self.functions[node.name] = node
                if not node.name.startswith("_"):
                    self.public.append(node.name)
            elif isinstance(node, ast.ClassDef):
                self.globals[node.name] = ("class", node)
                if not node.name.startswith("_"):
                    self.public.append(node.name)
            elif isinstance(node, (ast.Assign, ast.AugAssign, ast.AnnAssign)):
                ts = node.targets if isinstance(node, ast.Assign) else [node.target]
                for t in ts:
                    for x in ast.walk(t):
                        if isinstance(x, ast.Name):
                            self.globals[x.id] = ("other", "assigned", None)


def translate_function(module, name, sig, lean_name):
    """-> (lean text, result type) ; raises Refuse"""
    fn = module.functions.get(name)
    if fn is None:
        raise Refuse("no module-level function %s" % name)
    return FunctionTranslator(module, fn, sig).translate(lean_name)


def translate_decorator(module, name, sig, lean_name):
    """the decorator-factory shape
           def NAME(p1, …):
               def wrap(function):
                   @wraps(function)                       # functools.wraps
                   def wrapped(individual, *args, **kargs):
                       BODY
                       return function(E, *args, **kargs)
                   return wrapped
               return wrap
    is rendered as `Gen.NAME p1 … individual` = the value E handed to the decorated function as its first argument (the
    other arguments are passed through untouched, the decorated function's result is returned untouched).  BODY must not
    mention `function`, `args`, `kargs` and must not assign p1 …  -> (lean text, result type); raises Refuse"""
    fn = module.functions.get(name)
    if fn is None:
        raise Refuse("no module-level function %s" % name)

    def strip(body):
        body = list(body)
        if body and isinstance(body[0], ast.Expr) and isinstance(body[0].value, ast.Constant) and isinstance(body[0].value.value, str):
            body = body[1:]
        return body
    ob = strip(fn.body)
    if fn.decorator_list or len(ob) != 2 or not isinstance(ob[0], ast.FunctionDef) or not isinstance(ob[1], ast.Return) \
            or not isinstance(ob[1].value, ast.Name) or ob[1].value.id != ob[0].name:
        raise Refuse("not a decorator factory")
    wrap = ob[0]
    wb = strip(wrap.body)
    if wrap.decorator_list or len(wrap.args.args) != 1 or wrap.args.vararg or wrap.args.kwarg or len(wb) != 2 \
            or not isinstance(wb[0], ast.FunctionDef) or not isinstance(wb[1], ast.Return) \
            or not isinstance(wb[1].value, ast.Name) or wb[1].value.id != wb[0].name:
        raise Refuse("not a decorator factory")
    fparam = wrap.args.args[0].arg
    inner = wb[0]
    d = inner.decorator_list
    if len(d) != 1 or not (isinstance(d[0], ast.Call) and isinstance(d[0].func, ast.Name) and len(d[0].args) == 1
                           and not d[0].keywords and isinstance(d[0].args[0], ast.Name) and d[0].args[0].id == fparam
                           and module.globals.get(d[0].func.id) == ("other", "functools", "wraps")):
        raise Refuse("inner function is not decorated by functools.wraps(function) only")
    ia = inner.args
    if len(ia.args) != 1 or ia.vararg is None or ia.kwarg is None or ia.kwonlyargs or ia.posonlyargs or ia.defaults:
        raise Refuse("inner function is not (individual, *args, **kargs)")
    va, kw = ia.vararg.arg, ia.kwarg.arg
    ib = strip(inner.body)
    last = ib[-1] if ib else None
    if not (isinstance(last, ast.Return) and isinstance(last.value, ast.Call) and isinstance(last.value.func, ast.Name)
            and last.value.func.id == fparam and len(last.value.args) == 2 and isinstance(last.value.args[1], ast.Starred)
            and isinstance(last.value.args[1].value, ast.Name) and last.value.args[1].value.id == va
            and len(last.value.keywords) == 1 and last.value.keywords[0].arg is None
            and isinstance(last.value.keywords[0].value, ast.Name) and last.value.keywords[0].value.id == kw):
        raise Refuse("inner function does not end in `return function(E, *args, **kargs)`")
    handed = last.value.args[0]
    outer = [a.arg for a in fn.args.args]
    if fn.args.vararg or fn.args.kwarg or fn.args.kwonlyargs or fn.args.posonlyargs or fn.args.defaults:
        raise Refuse("*args / defaults on the decorator factory")
    new_body = ib[:-1] + [ast.Return(value=handed, lineno=last.lineno, col_offset=last.col_offset)]
    for st in new_body:
        for node in ast.walk(st):
            if isinstance(node, ast.Name) and node.id in (fparam, va, kw):
                raise Refuse("the body uses %s" % node.id)
            if isinstance(node, ast.Name) and isinstance(node.ctx, ast.Store) and node.id in outer:
                raise Refuse("the body assigns the captured parameter %s" % node.id)
            if isinstance(node, (ast.Global, ast.Nonlocal)):
                raise Refuse("global / nonlocal")
    if ia.args[0].arg in outer:
        raise Refuse("parameter name used twice")
    synth = ast.FunctionDef(name=name, args=ast.arguments(posonlyargs=[], args=list(fn.args.args) + [ia.args[0]], vararg=None,
                                                          kwonlyargs=[], kw_defaults=[], kwarg=None, defaults=[]),
                            body=new_body, decorator_list=[], returns=None, lineno=fn.lineno, col_offset=fn.col_offset)
    return FunctionTranslator(module, synth, sig).translate(lean_name)


METHOD_INFO = {}     # lean name -> dict(fields read, parameter types, result type) of the methods rendered so far


def translate_method(module, cls, meth, fields, sig, lean_name, decorator=False, siblings=None):
    """a method of a class, as a function of the object's fields (state-passing).
    `self.X` (X in `fields`) read -> the parameter / local `self_X`; a top-level statement `self.X = e` -> `self_X = e`;
    a method without `return` that assigns exactly one field returns the new value of that field.  Fields hold VALUES:
    that `self.X = v` keeps a reference to the caller's object `v` (later changes of `v` show through) is outside the
    rendering.  Parameters of the rendered function: the fields the method reads (in the order of `fields`), then the
    method's parameters.  Any other use of `self` is refused.
    decorator=True: the method has the shape
            def __call__(self, func):
                @wraps(func)
                def wrapper(individual, *args, **kargs):
                    return func(E, *args, **kargs)
                wrapper.a = self.a            # any number of these (publishing bound methods; no effect on values)
                return wrapper
    and is rendered as the value E handed to `func` (parameters: the fields read, then `individual`).
    -> (lean text, result type); raises Refuse"""
    node = module.globals.get(cls)
    if not node or node[0] != "class":
        raise Refuse("no class %s" % cls)
    fn = None
    for x in node[1].body:
        if isinstance(x, ast.FunctionDef) and x.name == meth:
            fn = x
    if fn is None:
        raise Refuse("no method %s.%s" % (cls, meth))
    a = fn.args
    if fn.decorator_list or a.vararg or a.kwarg or a.kwonlyargs or a.posonlyargs or not a.args:
        raise Refuse("method signature")
    for prm in a.args[len(a.args) - len(a.defaults):]:
        if sig.get(prm.arg, ("",))[0] != "K":
            raise Refuse("default value of %s (only parameters specialised to a constant may have one)" % prm.arg)
    selfname = a.args[0].arg
    params = list(a.args[1:])
    body = list(fn.body)
    if body and isinstance(body[0], ast.Expr) and isinstance(body[0].value, ast.Constant) and isinstance(body[0].value.value, str):
        body = body[1:]
    if decorator:
        if len(params) != 1 or len(body) < 2 or not isinstance(body[0], ast.FunctionDef) or not isinstance(body[-1], ast.Return) \
                or not isinstance(body[-1].value, ast.Name) or body[-1].value.id != body[0].name:
            raise Refuse("not a decorator method")
        fparam, inner = params[0].arg, body[0]
        for st in body[1:-1]:
            if not (isinstance(st, ast.Assign) and len(st.targets) == 1 and isinstance(st.targets[0], ast.Attribute)
                    and isinstance(st.targets[0].value, ast.Name) and st.targets[0].value.id == inner.name
                    and isinstance(st.value, ast.Attribute) and isinstance(st.value.value, ast.Name)
                    and st.value.value.id == selfname):
                raise Refuse("decorator method: statement %s" % type(st).__name__)
        d = inner.decorator_list
        if len(d) != 1 or not (isinstance(d[0], ast.Call) and isinstance(d[0].func, ast.Name) and len(d[0].args) == 1
                               and not d[0].keywords and isinstance(d[0].args[0], ast.Name) and d[0].args[0].id == fparam
                               and module.globals.get(d[0].func.id) == ("other", "functools", "wraps")):
            raise Refuse("inner function is not decorated by functools.wraps(func) only")
        ia = inner.args
        if len(ia.args) != 1 or ia.vararg is None or ia.kwarg is None or ia.kwonlyargs or ia.posonlyargs or ia.defaults:
            raise Refuse("inner function is not (individual, *args, **kargs)")
        va, kw = ia.vararg.arg, ia.kwarg.arg
        ib = list(inner.body)
        last = ib[-1] if ib else None
        if not (isinstance(last, ast.Return) and isinstance(last.value, ast.Call) and isinstance(last.value.func, ast.Name)
                and last.value.func.id == fparam and len(last.value.args) == 2 and isinstance(last.value.args[1], ast.Starred)
                and isinstance(last.value.args[1].value, ast.Name) and last.value.args[1].value.id == va
                and len(last.value.keywords) == 1 and last.value.keywords[0].arg is None
                and isinstance(last.value.keywords[0].value, ast.Name) and last.value.keywords[0].value.id == kw):
            raise Refuse("inner function does not end in `return func(E, *args, **kargs)`")
        body = ib[:-1] + [ast.Return(value=last.value.args[0], lineno=last.lineno, col_offset=last.col_offset)]
        for st in body:
            for nd in ast.walk(st):
                if isinstance(nd, ast.Name) and nd.id in (fparam, va, kw):
                    raise Refuse("the body uses %s" % nd.id)
        params = [ia.args[0]]
    # `if p:` on a parameter specialised to a constant (top level): only the branch taken exists in the rendering
    def const_test(t):
        """the value of `p` / `not p` for a parameter p specialised to a constant, else None"""
        if isinstance(t, ast.Name) and sig.get(t.id, ("",))[0] == "K" and t.id in [x.arg for x in params]:
            return bool(sig[t.id][1])
        if isinstance(t, ast.UnaryOp) and isinstance(t.op, ast.Not):
            v = const_test(t.operand)
            return None if v is None else not v
        return None
    pruned = []
    for st in body:
        if isinstance(st, ast.If) and const_test(st.test) is not None:
            pruned.extend(st.body if const_test(st.test) else st.orelse)
        else:
            pruned.append(st)
        if pruned and isinstance(pruned[-1], ast.Return):
            break                   # what follows a top-level return is never executed
    body = pruned
    # self.X -> self_X
    read, written = [], []
    helpers, helper_stack = {}, [meth]
    class_methods = {x.name: x for x in node[1].body if isinstance(x, ast.FunctionDef)}

    class T(ast.NodeTransformer):
        def visit_Call(self, nd):
            f = nd.func
            if isinstance(f, ast.Attribute) and isinstance(f.value, ast.Name) and f.value.id == selfname \
                    and siblings and f.attr in siblings:
                sib = siblings[f.attr]
                for fld in sib["fields"]:
                    if fld not in read and fld not in written:
                        read.append(fld)
                    if fld in written:
                        raise Refuse("call of %s.%s after a field it reads was assigned" % (selfname, f.attr))
                return ast.copy_location(ast.Call(func=ast.Name(id="method__" + f.attr, ctx=ast.Load()),
                                                  args=[self.visit(x) for x in nd.args],
                                                  keywords=[ast.keyword(arg=k.arg, value=self.visit(k.value)) for k in nd.keywords]), nd)
            if isinstance(f, ast.Attribute) and isinstance(f.value, ast.Name) and f.value.id == selfname \
                    and f.attr in class_methods and not nd.keywords and f.attr not in helper_stack:
                # another method of the object that only READS fields: inlined at the call like a module function
                h = class_methods[f.attr]
                ha = h.args
                if h.decorator_list or ha.vararg or ha.kwarg or ha.kwonlyargs or ha.posonlyargs or ha.defaults \
                        or not ha.args or ha.args[0].arg != selfname:
                    raise Refuse("call of the method %s.%s" % (selfname, f.attr))
                if f.attr not in helpers:
                    helper_stack.append(f.attr)
                    try:
                        # (a copy: NodeTransformer rewrites in place; field assignments inside are refused — Store context)
                        hb = [self.visit(copy.deepcopy(x)) for x in h.body]
                    finally:
                        helper_stack.pop()
                    helpers[f.attr] = ([x.arg for x in ha.args[1:]], hb)
                return ast.copy_location(ast.Call(func=ast.Name(id="helper__" + f.attr, ctx=ast.Load()),
                                                  args=[self.visit(x) for x in nd.args], keywords=[]), nd)
            return self.generic_visit(nd)

        def visit_Attribute(self, nd):
            if isinstance(nd.value, ast.Name) and nd.value.id == selfname:
                if nd.attr not in fields or not isinstance(nd.ctx, ast.Load):
                    raise Refuse("use of %s.%s" % (selfname, nd.attr))
                if nd.attr not in read and nd.attr not in written:
                    read.append(nd.attr)
                return ast.copy_location(ast.Name(id="self_" + nd.attr, ctx=ast.Load()), nd)
            return self.generic_visit(nd)

        def visit_Name(self, nd):
            if nd.id == selfname:
                raise Refuse("use of %s other than %s.<field>" % (selfname, selfname))
            if nd.id.startswith("self_") or nd.id.startswith("helper__") or nd.id.startswith("method__"):
                raise Refuse("name %s" % nd.id)
            return nd
    out = []
    body = [copy.deepcopy(st) for st in body]
    for st in body:
        if isinstance(st, ast.Assign) and len(st.targets) == 1 and isinstance(st.targets[0], ast.Attribute) \
                and isinstance(st.targets[0].value, ast.Name) and st.targets[0].value.id == selfname:
            f = st.targets[0].attr
            if f not in fields:
                raise Refuse("assignment of the undeclared field %s" % f)
            val = T().visit(st.value)
            if f not in written:
                written.append(f)
            out.append(ast.copy_location(ast.Assign(targets=[ast.Name(id="self_" + f, ctx=ast.Store())], value=val), st))
        else:
            out.append(T().visit(st))
    has_return = any(isinstance(nd, ast.Return) for st in out for nd in ast.walk(st))
    if not has_return:
        if len(written) != 1:
            raise Refuse("method without return that assigns %d fields" % len(written))
        out.append(ast.Return(value=ast.Name(id="self_" + written[0], ctx=ast.Load(), lineno=fn.lineno, col_offset=0),
                              lineno=fn.lineno, col_offset=0))
    elif written:
        raise Refuse("method that assigns fields and returns a value")
    fargs = [ast.arg(arg="self_" + f) for f in fields if f in read] + params
    full_sig = dict(sig)
    for f in fields:
        full_sig["self_" + f] = fields[f]
    synth = ast.FunctionDef(name=meth, args=ast.arguments(posonlyargs=[], args=fargs, vararg=None, kwonlyargs=[],
                                                          kw_defaults=[], kwarg=None, defaults=[]),
                            body=out, decorator_list=[], returns=None, lineno=fn.lineno, col_offset=fn.col_offset)
    ast.fix_missing_locations(synth)
    ft = FunctionTranslator(module, synth, full_sig)
    ft.siblings = {"method__" + k: dict(v, name=k) for k, v in (siblings or {}).items()}
    ft.helper_macros = {"helper__" + k: (ps, hb, k) for k, (ps, hb) in helpers.items()}
    text, rty = ft.translate(lean_name)
    METHOD_INFO[lean_name] = {"lean": lean_name, "fields": [f for f in fields if f in read],
                              "params": [full_sig[x.arg] for x in params if full_sig[x.arg][0] != "K"],
                              "kw": {x.arg: full_sig[x.arg][1] for x in params if full_sig[x.arg][0] == "K"}, "ret": rty}
    return text, rty


def lean_result_type(t):
    return lean_type(t)
