#!/venv/bin/python
"""seedtest.py [id ...] — run the registered quick checks against the seeded breaking changes.

For every /verif/seeded/<id>/ (patch.diff + meta.json naming the property): apply the patch to /repo,
run the property's quick check, record exit status and the VIOLATION line, and revert /repo
(`git checkout -- .`) straight afterwards.  Evidence files are restored afterwards (evidence must
describe the unchanged tree).  Writes seeded/RESULTS.json.  /repo must be clean when this starts."""
import json
import os
import shutil
import subprocess
import sys
import tempfile
import time

VERIF = os.path.dirname(os.path.dirname(os.path.abspath(__file__)))
REPO = "/repo"


def sh(cmd, **kw):
    return subprocess.run(cmd, stdout=subprocess.PIPE, stderr=subprocess.STDOUT, text=True, **kw)


def main():
    ids = sys.argv[1:]
    sd = os.path.join(VERIF, "seeded")
    if not ids:
        ids = sorted(d for d in os.listdir(sd) if os.path.exists(os.path.join(sd, d, "patch.diff")))
    if sh(["git", "-C", REPO, "status", "--porcelain", "--untracked-files=no"]).stdout.strip():
        print("refusing: /repo has uncommitted changes")
        return 2
    results = {}
    try:
        results = json.load(open(os.path.join(sd, "RESULTS.json")))
    except (OSError, ValueError):
        pass
    evbak = tempfile.mkdtemp(prefix="deapverif-ev-")
    shutil.copytree(os.path.join(VERIF, "evidence"), os.path.join(evbak, "evidence"))
    try:
        for sid in ids:
            d = os.path.join(sd, sid)
            meta = json.load(open(os.path.join(d, "meta.json")))
            props = meta.get("run_checks") or [meta["property"]]
            r = sh(["git", "-C", REPO, "apply", os.path.join(d, "patch.diff")])
            if r.returncode != 0:
                results[sid] = {"error": "patch does not apply: " + r.stdout[-300:]}
                print(sid, "PATCH DOES NOT APPLY")
                continue
            try:
                res = {}
                for pid in props:
                    t0 = time.time()
                    r = sh(["/venv/bin/python", os.path.join(VERIF, "harness", "vcheck.py"), pid, "--tier", "quick"],
                           cwd=VERIF, env=dict(os.environ, DEAP_REPO=REPO))
                    vl = [l for l in r.stdout.splitlines() if l.startswith("VIOLATION")]
                    res[pid] = {"exit": r.returncode, "violation_line": vl[0] if vl else None,
                                "wall_s": round(time.time() - t0, 1)}
                    replay = None
                    if vl and "replay=" in vl[0]:
                        replay = vl[0].split("replay=")[1].split()[0]
                        try:
                            data = json.load(open(replay))
                            res[pid]["replay_kind"] = data.get("kind")
                            res[pid]["replay_failure"] = str(data.get("failure", ""))[:300]
                        except (OSError, ValueError):
                            pass
                    print("%-28s %s exit=%d %s" % (sid, pid, r.returncode, (vl[0] if vl else r.stdout.strip().splitlines()[-1:] or "")))
                results[sid] = {"property": meta["property"], "checks": res,
                                "caught": any(v["exit"] == 1 and v["violation_line"] for v in res.values())}
            finally:
                sh(["git", "-C", REPO, "checkout", "--", "."])
    finally:
        sh(["git", "-C", REPO, "checkout", "--", "."])
        for fn in os.listdir(os.path.join(evbak, "evidence")):
            shutil.copy(os.path.join(evbak, "evidence", fn), os.path.join(VERIF, "evidence", fn))
        shutil.rmtree(evbak, ignore_errors=True)
    json.dump(results, open(os.path.join(sd, "RESULTS.json"), "w"), indent=1, sort_keys=True)
    missed = [k for k, v in results.items() if not v.get("caught")]
    print("caught %d / %d; missed: %s" % (len(results) - len(missed), len(results), missed))
    return 0


if __name__ == "__main__":
    sys.exit(main())
